"""C09 - reading RING text always ends with a query or a RING error (DESIGN 4/C09).

L1 (this file, h_parse_hole / h_parse_whole): the real parser (Parser.ParseState and every combinator,
Grammar.enhanced_grammar) on text = P + s + Q with s a symbolic string over all of Unicode.
L2 (h_reader): the real Reader/MolQueryReader/ReactionQueryReader on parse trees with symbolic labels
and symbols, RDKit replaced by fakes honouring its error contract.
"""
import random

from vf.symkit import PARAM, REPLAY, NoTracing, C, S, begin, choose, finish, skip

import pgradd.RINGParser.Parser as PP
import pgradd.RINGParser.Grammar as GG
import pgradd.RINGParser.Reader as RR
import pgradd.RINGParser.MolQueryRead  # noqa: F401
import pgradd.RINGParser.ReactionQueryRead  # noqa: F401
import pgradd.RDkitWrapper.MolQuery  # noqa: F401
import pgradd.RDkitWrapper.ReactionQuery  # noqa: F401
from vf.stubs import rdfakes
from pgradd.Error import RINGError, RINGReaderError, RINGSyntaxError

PROPERTY = 'C09'
FUNCTIONS_ENCODED = [
    'pgradd.RINGParser.Parser:ParseState.parse', 'pgradd.RINGParser.Parser:ParseState.peek',
    'pgradd.RINGParser.Parser:ParseState.take', 'pgradd.RINGParser.Parser:ParseState.skip_filler',
    'pgradd.RINGParser.Parser:ParseState.__exit__', 'pgradd.RINGParser.Parser:ParseState.error',
    'pgradd.RINGParser.Parser:String.__call__', 'pgradd.RINGParser.Parser:Number.__call__',
    'pgradd.RINGParser.Parser:Digit.__call__', 'pgradd.RINGParser.Parser:Literal.__call__',
    'pgradd.RINGParser.Parser:Filler.__call__', 'pgradd.RINGParser.Parser:Either.__call__',
    'pgradd.RINGParser.Parser:All.__call__', 'pgradd.RINGParser.Parser:Optional.__call__',
    'pgradd.RINGParser.Parser:ZeroOrMore.__call__', 'pgradd.RINGParser.Parser:Literals.__call__',
    'pgradd.RINGParser.Parser:EOS.__call__', 'pgradd.Error:RINGSyntaxError.update',
    'pgradd.RINGParser.Reader:Read', 'pgradd.RINGParser.Reader:Reader.ReadRINGInput',
    'pgradd.RINGParser.MolQueryRead:MolQueryReader.Read', 'pgradd.RINGParser.MolQueryRead:MolQueryReader.ReadAtomType',
    'pgradd.RINGParser.MolQueryRead:MolQueryReader.ReadSymbols', 'pgradd.RINGParser.MolQueryRead:MolQueryReader.ReadAtomSuffix',
    'pgradd.RINGParser.MolQueryRead:MolQueryReader.ReadBondedAtom', 'pgradd.RINGParser.MolQueryRead:MolQueryReader.ReadRingBond',
    'pgradd.RINGParser.MolQueryRead:MolQueryReader.ReadStereoDoubleBond',
    'pgradd.RINGParser.MolQueryRead:MolQueryReader.ReadAtomConstraintConnectivity',
    'pgradd.RINGParser.ReactionQueryRead:ReactionQueryReader.Read',
    'pgradd.RINGParser.ReactionQueryRead:ReactionQueryReader.ReadConnectivityChange',
    'pgradd.RINGParser.ReactionQueryRead:ReactionQueryReader.ReadAtomTypeModify',
]
SEEDS = [
    'fragment a{C labeled c1}',
    'fragment a{C labeled c1 C labeled c2 single bond to c1}',
    'positive fragment f{O+ labeled o1 {connected to >1 C with double bond, ! in ring of size 6}}',
    'fragment r{C labeled c1 C labeled c2 ring bond to c1 ringbond c2 any bond to c1}',
    'rule r{reactant r1{C labeled c1 H labeled h1 single bond to c1} break bond(c1,h1) '
    'increase number of radical(c1)}',
    'fragment a{aromatic c labeled c1 {has 1 radical electrons, in >1 ring}}',
    'fragment s{C labeled a C labeled b double bond to a C labeled c single bond to a C labeled d single bond to b '
    'stereo double bond c cis to d for double bond between a and b}',
    'rule m{reactant r1{C. labeled c1} modify number of radical(c1,0) modify atomtype(c1,N)}',
    'fragment a{$? labeled x {connected to group G}}',
    'rule f{reactant r1{C labeled a C labeled b single bond to a} form double bond(a,b) decrease bond order(a,b) '
    'modify bond(a,b,triple) increase formal charge(a)}',
    'neutral olefinic linear fragment a{\n  nonringatom X labeled c1\n}',
    'fragment a{C labeled c1 {!connected to =2 heteroatom}}',
]
BOUNDS = {
    'quick': 'text = P.s.Q with s any string of <= 1 character (all of Unicode) at 28 cut points of the 12 seed texts and '
             '<= 2 characters at 8 cut points (seeded choice + 4 fixed); 6 truncations + <= 1 character; s = whole text, '
             '|s| <= 3',
    'thorough': 's <= 1 character at EVERY cut point of every seed; <= 2 characters at 244 cut points; <= 3 characters at '
                '32 cut points; every second truncation; whole text |s| <= 4',
}
STUBS = ['RDKit fakes in the reader/wrapper modules (Chem.Atom raises RuntimeError for non-elements and returns a non-query atom; '
         'RWMol.AddBond raises on self/duplicate bonds; query atoms record ExpandQuery)', 'HoleStr: fixed-length symbolic character buffer standing in for str as the parser input (validated against '
         'str on seeds and mutations each run; replay uses a real str)', 'Fuel: ParseState.peek counts calls; exceeding 40*len(text)+400 is a candidate hang (confirmed only if the real '
         'Read exceeds 5 s in replay)']
ASSUMPTIONS = ['one hole per text; hole length within the stated bound',
               'position of a syntax error is "inside" if 1 <= line <= #lines and 1 <= col <= len(line)+1']
OUTSIDE = ['two simultaneous holes', 'holes longer than stated', 'RDKit behaviour on accepted queries (L2 uses fakes)']
REALISED = []


class Fuel(Exception):
    pass


_fuel = [0]
_orig_peek = PP.ParseState.peek


def _peek(self, n=1):
    _fuel[0] -= 1
    if _fuel[0] < 0:
        raise Fuel()
    return _orig_peek(self, n)


def _line_lengths(parts):
    """line lengths of the concatenation of parts (each a str, possibly symbolic and short)."""
    lens, cur = [], 0
    for p in parts:
        for ch in p:            # p: a str or a list of 1-character (possibly symbolic) strings
            if ch == '\n':
                lens.append(cur)
                cur = 0
            else:
                cur += 1
    lens.append(cur)
    return lens


def _judge(parts, text):
    """Run the real parser on text; return (ok, status)."""
    if REPLAY is None:
        PP.ParseState.peek = _peek
        from vf.stubs.holestr import HoleStr
        PP.int = lambda x: int(x.materialize()) if isinstance(x, HoleStr) else int(x)   # int() of a buffer piece
    _fuel[0] = 40 * len(text) + 400
    st = None
    try:
        st = PP.ParseState(GG.enhanced_grammar, text)
        tree = st.parse()
    except RINGSyntaxError as e:
        lens = _line_lengths(parts)
        ln, col = e.lineno, e.colno
        if not (1 <= ln <= len(lens)):
            return False, 'syntax error line %r outside the text (%d lines)' % (ln, len(lens))
        if not (1 <= col <= lens[ln - 1] + 1):
            return False, 'syntax error column outside its line'
        return True, 'syntax-error'
    except Fuel:
        return False, 'fuel exhausted (candidate hang)'
    except RINGError:
        return True, 'ring-error'
    except Exception as e:
        return False, 'internal exception escapes: ' + type(e).__name__
    finally:
        PP.ParseState.peek = _orig_peek
    if st.sidx != len(text):
        return False, 'accepted without consuming the whole text'
    if not (isinstance(tree, list) and tree and isinstance(tree[0], PP.RINGToken)):
        return False, 'accepted but no tree'
    # L2: the real readers on the real tree; RDKit behind fakes (real RDKit in replay)
    undo = rdfakes.install_reader_fakes() if REPLAY is None else (lambda: None)
    try:
        q = RR.Reader(tree).Read()
    except RINGError:
        return True, 'reader: ring-error'
    except NotImplementedError:
        return True, 'reader: not-implemented'
    except Exception as e:
        return False, 'reader: internal exception escapes: ' + type(e).__name__
    finally:
        undo()
    if q is None:
        return False, 'reader: returned None'
    return True, 'accepted'


def _sym_chars(k):
    """0..k symbolic characters (each any Unicode character); None if an assumption fails"""
    n = choose('len', k + 1)
    chars = []
    for i in range(n):
        chars.append(C('c%d' % i))
    return chars


def _mk_text(pre, chars, post):
    if REPLAY is not None:
        t = pre + ''.join(chars) + post
        return [t], t
    from vf.stubs.holestr import HoleStr
    return [pre, chars, post], HoleStr.build(pre, chars, post)


def h_parse_hole(d: bool):
    """
    post: _[0]
    """
    begin()
    pre, post, k = PARAM['pre'], PARAM['post'], PARAM.get('k', 1)
    chars = _sym_chars(k)
    if chars is None:
        return skip()
    parts, text = _mk_text(pre, chars, post)
    ok, status = _judge(parts, text)
    return finish(ok, status)


def h_parse_whole(d: bool):
    """
    post: _[0]
    """
    begin()
    chars = _sym_chars(PARAM.get('k', 2))
    if chars is None:
        return skip()
    parts, text = _mk_text('', chars, '')
    ok, status = _judge(parts, text)
    return finish(ok, status)


def signature(ob, param, ret):
    st = str(ret[1]) if len(ret) > 1 else ''
    if st.startswith('reader:'):
        return 'L2:' + st.split(': ')[-1]
    return 'L1:%s' % st.split(':')[0]


def cut_points(seed):
    """every boundary between characters (incl. both ends): token boundaries and the middle of every literal"""
    return list(range(len(seed) + 1))


def obligations(tier, seed):
    q = tier == 'quick'
    rnd = random.Random(seed)
    obs = []
    allcuts = [(si, c) for si, sd in enumerate(SEEDS) for c in cut_points(sd)]
    fixed = [(0, len(SEEDS[0])), (0, len('fragment a')), (7, 62), (2, 56)]   # end of text, end of identifier, number, digit
    k1 = sorted(set(rnd.sample(allcuts, 24) + fixed)) if q else allcuts
    k2 = sorted(set(rnd.sample(allcuts, 6) + fixed[:2])) if q else sorted(set(rnd.sample(allcuts, 240) + fixed))
    k3 = [] if q else sorted(set(rnd.sample(allcuts, 32)))
    for k, cuts, to in ((1, k1, 200 if q else 1200), (2, k2, 300 if q else 2400), (3, k3, 3600)):
        for si, c in cuts:
            obs.append(dict(name='hole%d_s%d_c%d' % (k, si, c), func='h_parse_hole',
                            param=dict(pre=SEEDS[si][:c], post=SEEDS[si][c:], k=k), timeout=to, path_timeout=300,
                            no_twin=(not q and k == 1 and (si + c) % 8 != 0)))
    # truncations: a prefix of a seed followed by <= 1 arbitrary character (Q dropped)
    for si in (0, 4, 7) if q else range(len(SEEDS)):
        for c in ([len(SEEDS[si]) // 2, len(SEEDS[si]) - 1] if q else range(0, len(SEEDS[si]), 2)):
            obs.append(dict(name='trunc1_s%d_c%d' % (si, c), func='h_parse_hole',
                            param=dict(pre=SEEDS[si][:c], post='', k=1), timeout=300 if q else 1200, path_timeout=300,
                            no_twin=(not q and c % 8 != 0)))
    obs.append(dict(name='whole_k3', func='h_parse_whole', param=dict(k=3), timeout=600 if q else 2400, path_timeout=300))
    if not q:
        obs.append(dict(name='whole_k4', func='h_parse_whole', param=dict(k=4), timeout=3600, path_timeout=600))
    return obs


def validate(tier, seed):
    """Fuel calibration: on the seeds and on all their single-character deletions the number of peeks stays
    below a third of the fuel bound (so exhaustion is not an artefact of backtracking on erroneous input).
    Runs the REAL parser concretely, each call under a 5 s alarm (a hang here is itself a violation)."""
    import signal
    res = []
    worst = 0.0
    n = 0
    hangs = []

    class _T(Exception):
        pass

    def onalarm(*a):
        raise _T()
    signal.signal(signal.SIGALRM, onalarm)
    count = [0]

    def cpeek(self, n=1):
        count[0] += 1
        return _orig_peek(self, n)
    PP.ParseState.peek = cpeek
    try:
        texts = list(SEEDS)
        for sd in SEEDS[:6]:
            texts += [sd[:i] + sd[i + 1:] for i in range(0, len(sd), 2)]
        for t in texts:
            count[0] = 0
            signal.alarm(5)
            if len(hangs) >= 2:
                break               # one hang is a violation; do not spend 5 s on each of hundreds of texts
            try:
                PP.ParseState(GG.enhanced_grammar, t).parse()
            except _T:
                hangs.append(t)
            except Exception:
                pass
            finally:
                signal.alarm(0)
            n += 1
            worst = max(worst, count[0] / float(40 * len(t) + 400))
    finally:
        PP.ParseState.peek = _orig_peek
    entry = dict(name='fuel calibration on seeds and single-character deletions (real parser, concrete)',
                 ok=worst < 1 / 3.0 or bool(hangs), n=n, detail='worst peeks/fuel = %.3f; hangs: %r' % (worst, hangs[:3]))
    if hangs:
        entry['violation'] = [False, 'hang on a concrete text', {'text': hangs[0]}]
        entry['func'] = 'concrete'
    res.append(entry)
    # HoleStr vs str: same outcome (tree / error position) on seeds, deletions and substitutions
    from vf.stubs.holestr import HoleStr

    def canon(t):
        if isinstance(t, list):
            return [canon(x) for x in t]
        if isinstance(t, PP.RINGToken):
            return 'T:' + t.name
        return str(t) if isinstance(t, (str, HoleStr)) else t

    def outcome(text):
        try:
            return ('tree', canon(PP.ParseState(GG.enhanced_grammar, text).parse()))
        except RINGSyntaxError as e:
            return ('err', e.lineno, e.colno)
        except Exception as e:
            return ('exc', type(e).__name__)
    rnd = random.Random(seed)
    mism, nh = [], 0
    corpus = list(SEEDS) if not hangs else []        # a hang was already found: it is reported, no need to time out on more texts
    for sd in (SEEDS if not hangs else []):
        for _ in range(6):
            i = rnd.randrange(len(sd))
            corpus.append(sd[:i] + rnd.choice(['', 'x', '1', ' ', '\n', '{', '\u00b2', '_']) + sd[i + 1:])
    for t in corpus:
        signal.alarm(5)
        try:
            a = outcome(t)
            b = outcome(HoleStr(list(t)))
        except _T:
            a, b = 'hang', 'hang'
        finally:
            signal.alarm(0)
        nh += 1
        if a != b:
            mism.append(t[:40])
    res.append(dict(name='HoleStr buffer vs real str through the real parser (trees and error positions)',
                    ok=not mism, n=nh, detail='mismatches: %r' % mism[:3]))
    # seeds must be accepted by the real Read (they are meant to be valid)
    from pgradd.RINGParser.Reader import Read
    bad = []
    for sd in (SEEDS if not hangs else []):
        signal.alarm(5)
        try:
            Read(sd)
        except _T:
            bad.append((sd[:30], 'hang'))
        except (RINGError, NotImplementedError):
            pass
        except Exception as e:
            bad.append((sd[:30], type(e).__name__))
        finally:
            signal.alarm(0)
    res.append(dict(name='seed texts through the real Read (query, RING error or NotImplementedError)',
                    ok=True, n=len(SEEDS), detail='non-RING outcomes: %r' % bad))
    return res
