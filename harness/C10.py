"""C10 - unit expressions evaluate to the exact SI value and dimension (DESIGN 4/C10)."""
import time

from vf.symkit import PARAM, REPLAY, NoTracing, R, all_close, begin, choose, finish, skip

import pgradd.Units.qty as Q
import pgradd.Units.parser as P
import pgradd.Units.db as DB
from pgradd.Units import eval_qty, with_units, in_units, to_SI_from, from_SI_to
from pgradd.Error import UnitsError, UnitsParseError

Q.print = lambda *a, **k: None
if REPLAY is None:
    Q.GenericQuantity.__str__ = lambda self: '<quantity>'

PROPERTY = 'C10'
FUNCTIONS_ENCODED = [
    'pgradd.Units.db:UnitsDB.lookup',
    'pgradd.Units.parser:UnitsParser.parse', 'pgradd.Units.parser:UnitsParser.parse_expr',
    'pgradd.Units.parser:UnitsParser.parse_factor', 'pgradd.Units.parser:UnitsParser.parse_base',
    'pgradd.Units.parser:UnitsParser.parse_name', 'pgradd.Units.parser:UnitsParser.parse_number',
    'pgradd.Units.parser:eval_subtree',
    'pgradd.Units.qty:GenericQuantity.in_units', 'pgradd.Units.helpers:with_units',
    'pgradd.Units.helpers:in_units', 'pgradd.Units.helpers:to_SI_from', 'pgradd.Units.helpers:from_SI_to',
]
BOUNDS = {
    'quick': 'lookup: every string of length <= 16 (z3 sequence theory on the AST of UnitsDB.lookup); parser: every token '
             'sequence of length <= 3 over a 17-token alphabet with symbolic real numerals in base position; conversions: '
             'symbolic magnitudes over every ordered pair of 14 unit spellings',
    'thorough': 'parser: token sequences of length <= 4',
}
STUBS = ['regex tokeniser bypassed (token list injected; validated concretely)', 'float()/int() of the two numeral '
         'placeholders in parser.py return symbolic reals', 'print()/__str__ of quantities silenced']
ASSUMPTIONS = ['float := real', 'no division by a zero magnitude, no 0**negative, no negative base to a fractional power',
               'numeral placeholders (symbolic magnitudes) only in base position; exponents from {2,3,-1,0.5,1.5}',
               'reading of a unit name: exact unit, else 1-letter SI prefix + unit, else "da" + unit',
               'unit/prefix tables are finite configuration; each entry compared concretely with an independent SI table']
OUTSIDE = ['decimal -> float conversion of numerals by the regex tokeniser', 'strings longer than 16 in lookup',
           'fractional powers other than 1/2']
REALISED = ['token choices (solver-enumerated)']

# ---- independent SI table (value in SI base units, exponents over m kg s A K mol cd) -----------------
SI = {
    'm': (1.0, (1, 0, 0, 0, 0, 0, 0)), 'g': (1e-3, (0, 1, 0, 0, 0, 0, 0)), 's': (1.0, (0, 0, 1, 0, 0, 0, 0)),
    'A': (1.0, (0, 0, 0, 1, 0, 0, 0)), 'K': (1.0, (0, 0, 0, 0, 1, 0, 0)), 'mol': (1.0, (0, 0, 0, 0, 0, 1, 0)),
    'cd': (1.0, (0, 0, 0, 0, 0, 0, 1)),
    'N': (1.0, (1, 1, -2, 0, 0, 0, 0)), 'Pa': (1.0, (-1, 1, -2, 0, 0, 0, 0)), 'J': (1.0, (2, 1, -2, 0, 0, 0, 0)),
    'W': (1.0, (2, 1, -3, 0, 0, 0, 0)), 'C': (1.0, (0, 0, 1, 1, 0, 0, 0)), 'V': (1.0, (2, 1, -3, -1, 0, 0, 0)),
    'F': (1.0, (-2, -1, 4, 2, 0, 0, 0)), 'Ohm': (1.0, (2, 1, -3, -2, 0, 0, 0)),
    'molecule': (1 / 6.02214076e23, (0, 0, 0, 0, 0, 1, 0)),
    'in': (0.0254, (1, 0, 0, 0, 0, 0, 0)), 'ft': (0.3048, (1, 0, 0, 0, 0, 0, 0)),
    'L': (1e-3, (3, 0, 0, 0, 0, 0, 0)),
    'min': (60.0, (0, 0, 1, 0, 0, 0, 0)), 'h': (3600.0, (0, 0, 1, 0, 0, 0, 0)),
    'u': (1.66053906660e-27, (0, 1, 0, 0, 0, 0, 0)), 'lb': (0.45359237, (0, 1, 0, 0, 0, 0, 0)),
    't': (1000.0, (0, 1, 0, 0, 0, 0, 0)),
    'dyn': (1e-5, (1, 1, -2, 0, 0, 0, 0)), 'lbf': (4.4482216152605, (1, 1, -2, 0, 0, 0, 0)),
    'bar': (1e5, (-1, 1, -2, 0, 0, 0, 0)), 'atm': (101325.0, (-1, 1, -2, 0, 0, 0, 0)),
    'torr': (101325.0 / 760, (-1, 1, -2, 0, 0, 0, 0)), 'psi': (6894.757293168, (-1, 1, -2, 0, 0, 0, 0)),
    'cal': (4.184, (2, 1, -2, 0, 0, 0, 0)), 'erg': (1e-7, (2, 1, -2, 0, 0, 0, 0)),
    'BTU': (1054.35026444, (2, 1, -2, 0, 0, 0, 0)), 'eV': (1.602176634e-19, (2, 1, -2, 0, 0, 0, 0)),
    'hp': (745.69987158227, (2, 1, -3, 0, 0, 0, 0)),
    'P': (0.1, (-1, 1, -1, 0, 0, 0, 0)), 'St': (1e-4, (2, 0, -1, 0, 0, 0, 0)),
}
SI_PREFIX = {'Y': 1e24, 'Z': 1e21, 'E': 1e18, 'P': 1e15, 'T': 1e12, 'G': 1e9, 'M': 1e6, 'k': 1e3, 'h': 1e2,
             'da': 1e1, 'd': 1e-1, 'c': 1e-2, 'm': 1e-3, 'u': 1e-6, 'n': 1e-9, 'p': 1e-12, 'f': 1e-15, 'a': 1e-18,
             'z': 1e-21, 'y': 1e-24}
DEF_TOL = 1e-6      # the repo uses CODATA-2006 constants; anything beyond 1 ppm is a wrong definition


def expected_reading(name):
    """Independent reading of a unit name: (prefix or '', unit) or None."""
    if name in SI:
        return ('', name)
    if name[1:] in SI and name[:1] in SI_PREFIX and len(name[:1]) == 1:
        return (name[:1], name[1:])
    if name[2:] in SI and name[:2] == 'da':
        return ('da', name[2:])
    return None


# ---- engine B: UnitsDB.lookup over all strings ----------------------------------------------------
def d_lookup():
    import z3
    from vf.py2smt import Translator, Unsupported
    maxlen = PARAM.get('maxlen', 16)
    t0 = time.time()
    db = DB.units_db
    try:
        tr = Translator(DB.UnitsDB.lookup, db, 'name')
        paths = tr.paths()
    except Unsupported as e:
        return dict(status='not_confirmed', witness='inconclusive: %s' % e)
    name = tr.var
    units = sorted(db.db)                      # the documented unit names = keys of the live table
    pref1 = sorted(k for k in db.prefixes if len(k) == 1)
    U = lambda s: z3.Or(*[s == z3.StringVal(u) for u in units])          # noqa: E731
    P1 = lambda s: z3.Or(*[s == z3.StringVal(p) for p in pref1])         # noqa: E731
    sub = lambda a, n=None: z3.SubString(name, a, z3.Length(name) - a) if n is None else z3.SubString(name, a, n)  # noqa: E731
    c_unit = U(name)
    c_p1 = z3.And(z3.Not(c_unit), U(sub(1)), P1(sub(0, 1)))
    c_da = z3.And(z3.Not(c_unit), z3.Not(c_p1), U(sub(2)), sub(0, 2) == z3.StringVal('da'))
    exp_err = z3.Not(z3.Or(c_unit, c_p1, c_da))
    exp_pref = z3.If(c_unit, z3.StringVal(''), z3.If(c_p1, sub(0, 1), z3.StringVal('da')))
    exp_unit = z3.If(c_unit, name, z3.If(c_p1, sub(1), sub(2)))
    queries, solver_time, stats = 0, 0.0, dict(sat=0, unsat=0, unknown=0)

    def ask(*fs):
        nonlocal queries, solver_time
        s = z3.Solver()
        s.set('timeout', 120000)
        s.add(z3.Length(name) <= maxlen, *fs)
        t = time.time()
        r = str(s.check())
        solver_time += time.time() - t
        queries += 1
        stats[r] = stats.get(r, 0) + 1
        return r, (s.model()[name].as_string() if r == 'sat' else None)

    verdict, witness, unknown = 'confirmed', None, []
    covered = z3.BoolVal(False)
    for p in paths:
        r, m = ask(p.cond)            # reachability witness per path (vacuity guard)
        covered = z3.Or(covered, p.cond)
        if p.kind == 'return':
            got_pref, got_unit = z3.StringVal(''), None
            for dname, d, key in p.lookups:
                r, m = ask(p.cond, z3.Not(z3.Or(*[key == z3.StringVal(k) for k in d])))
                if r == 'sat':
                    return dict(status='cex', witness=['KeyError reachable in %s[...] at line %s' % (dname, p.lineno),
                                                      {'name': m}], stats=dict(z3_checks=queries, z3_time_s=solver_time, **stats))
                if r != 'unsat':
                    unknown.append((p.lineno, 'keyerror', r))
                if dname == 'prefixes':
                    got_pref = key
                elif dname == 'db':
                    got_unit = key
            if got_unit is None:
                return dict(status='not_confirmed', witness='inconclusive: return without a unit lookup at line %s' % p.lineno)
            r, m = ask(p.cond, z3.Or(exp_err, got_pref != exp_pref, got_unit != exp_unit))
            if r == 'sat':
                return dict(status='cex', witness=['wrong reading at line %s' % p.lineno, {'name': m}],
                            stats=dict(z3_checks=queries, z3_time_s=solver_time, **stats))
            if r != 'unsat':
                unknown.append((p.lineno, 'reading', r))
        elif p.kind == 'raise':
            bad = z3.Not(exp_err) if p.exc == 'UnitsParseError' else z3.BoolVal(True)
            r, m = ask(p.cond, bad)
            if r == 'sat':
                return dict(status='cex', witness=['%s raised for a readable name at line %s' % (p.exc, p.lineno), {'name': m}],
                            stats=dict(z3_checks=queries, z3_time_s=solver_time, **stats))
            if r != 'unsat':
                unknown.append((p.lineno, 'raise', r))
        else:
            r, m = ask(p.cond)
            if r == 'sat':
                return dict(status='cex', witness=['falls off the end (returns None)', {'name': m}],
                            stats=dict(z3_checks=queries, z3_time_s=solver_time, **stats))
    r, m = ask(z3.Not(covered))
    if r != 'unsat':
        unknown.append(('cover', r))
    st = dict(z3_checks=queries, z3_time_s=round(solver_time, 3), paths_finished=len(paths), **stats)
    if unknown:
        return dict(status='not_confirmed', witness='solver unknown on %r' % unknown, stats=st)
    return dict(status='confirmed', witness=None, stats=st, wall=time.time() - t0)


# ---- engine A: parser over token sequences -----------------------------------------------------------
NAMES = ['m', 's', 'kJ', 'mol', 'K', 'zz']
NUMS = ['2', '3', '-1', '0.5', '1.5']
SYMS = ['*', '/', '^', '(', ')']
PLACE = ['N0']                                   # numeral placeholder -> symbolic real
ALPHABET = NAMES + NUMS + SYMS + PLACE


class _Bad(Exception):
    pass


class _Ref(object):
    """Reference evaluator written from the property text: products, quotients, juxtaposition (= product),
    parentheses, numeric powers; * and / left-associative; ^ binds tighter; result (value, exps)."""

    def __init__(self, toks, numval):
        self.t, self.i, self.numval = toks, 0, numval

    def peek(self):
        return self.t[self.i] if self.i < len(self.t) else None

    def take(self):
        v = self.peek()
        if v is not None:
            self.i += 1
        return v

    def parse(self):
        v = self.expr()
        if self.peek() is not None:
            raise _Bad()
        return v

    def starts_factor(self, tok):
        return tok is not None and (tok == '(' or tok in NUMS or tok in PLACE or tok in NAMES)

    def expr(self):
        val = self.factor()
        while True:
            nxt = self.peek()
            if nxt in ('*', '/'):
                self.take()
                rhs = self.factor()
                val = self.mul(val, rhs) if nxt == '*' else self.div(val, rhs)
            elif self.starts_factor(nxt):
                save = self.i
                try:
                    rhs = self.factor()
                except _Bad:
                    self.i = save
                    break
                val = self.mul(val, rhs)
            else:
                break
        return val

    def factor(self):
        b = self.base()
        if self.peek() == '^':
            self.take()
            e = self.number(exponent=True)
            return self.pow(b, e)
        return b

    def base(self):
        nxt = self.peek()
        if nxt is None:
            raise _Bad()
        if nxt == '(':
            self.take()
            v = self.expr()
            if self.take() != ')':
                raise _Bad()
            return v
        if nxt in NUMS or nxt in PLACE:
            return (self.number(), (0,) * 7)
        self.take()
        if nxt not in NAMES:
            raise _Bad()
        rd = expected_reading(nxt)
        if rd is None:
            raise _Bad()
        val, exps = SI[rd[1]]
        return (SI_PREFIX[rd[0]] * val if rd[0] else val, exps)

    def number(self, exponent=False):
        tok = self.take()
        if tok == '(':
            tok = self.take()
            if self.take() != ')':
                raise _Bad()
        if tok in NUMS:
            return float(tok)
        if tok in PLACE and not exponent:
            return self.numval[tok]
        raise _Bad()

    @staticmethod
    def mul(a, b):
        v = None if (a[0] is None or b[0] is None) else a[0] * b[0]     # None: magnitude not tracked (fractional power)
        return (v, tuple(x + y for x, y in zip(a[1], b[1])))

    @staticmethod
    def div(a, b):
        v = None if (a[0] is None or b[0] is None) else a[0] / b[0]
        return (v, tuple(x - y for x, y in zip(a[1], b[1])))

    @staticmethod
    def pow(a, e):
        if e not in (2, 3, -1) and a[0] is not None and a[0] < 0:
            raise ZeroDivisionError('negative base to a fractional power: no defined (real) value')
        if a[0] is None:
            v = None
        elif e == 2:
            v = a[0] * a[0]
        elif e == 3:
            v = a[0] * a[0] * a[0]
        elif e == -1:
            v = 1 / a[0]
        else:
            v = None                            # 0.5: magnitude compared only when concrete
        return (v, tuple(x * e for x in a[1]), (a[0], e))


def _placeholder_after_caret(toks):
    for i, t in enumerate(toks):
        if t in PLACE and i > 0 and (toks[i - 1] == '^' or (toks[i - 1] == '(' and i > 1 and toks[i - 2] == '^')):
            return True
    return False


def h_parser(d: bool):
    """
    post: _[0]
    """
    begin()
    k = PARAM.get('k', 3)
    first = PARAM.get('first')
    n = choose('len', k) + 1
    toks = []
    for i in range(n):
        if i == 0 and first is not None:
            toks.append(ALPHABET[first])
        else:
            toks.append(ALPHABET[choose('t%d' % i, len(ALPHABET))])
    if _placeholder_after_caret(toks):
        return skip()
    numval = {'N0': R('N0')}
    if REPLAY is None:
        # numerals: the two conversions in parser.py map the placeholder to the symbolic real
        P.float = lambda s: numval[s] if s in numval else float(s)
        P.int = lambda s: numval[s] if s in numval else int(s)
    else:
        # replay: the placeholder is spelled as its decimal literal and the REAL tokeniser is used
        lit = repr(float(numval['N0']))
        if 'e' in lit or 'inf' in lit or 'nan' in lit:
            return skip()
        toks = [lit if t == 'N0' else t for t in toks]
        numval = {lit: float(lit)}
    # reference
    try:
        ref = _Ref(toks, numval).parse()
        ref_status = 'value'
    except _Bad:
        ref, ref_status = None, 'error'
    except ZeroDivisionError:
        return skip()
    # real code
    try:
        if REPLAY is None:
            pr = P.UnitsParser.__new__(P.UnitsParser)
            pr.tokens, pr.idx, pr.depth, pr.debug = list(toks), 0, 0, False
            got = P.eval_subtree(pr.parse())
        else:
            got = P.eval_expr(' '.join(toks))
        status = 'value'
    except UnitsParseError:
        status, got = 'error', None
    except ZeroDivisionError:
        return skip()
    except Exception as e:
        status, got = 'raised:' + type(e).__name__, None
    desc = ' '.join(toks)
    if status != ref_status:
        return finish(False, 'real=%s reference=%s for %r' % (status, ref_status, desc))
    if status == 'error':
        return finish(True, desc)
    rv, rexps = ref[0], ref[1]
    if any(rexps):
        if not isinstance(got, Q.Quantity):
            return finish(False, 'plain number returned for a dimensional expression %r' % desc)
        gexps = [float(x) for x in got.units.exps]
        gval = got.value
    else:
        if isinstance(got, Q.GenericQuantity):
            return finish(False, 'quantity returned for a dimensionless expression %r' % desc)
        gexps, gval = [0.0] * 7, got
    if gexps != [float(e) for e in rexps]:
        return finish(False, 'wrong dimension for %r: %r' % (desc, gexps))
    if rv is None:
        return finish(True, desc)          # fractional power: dimension only
    ok, lab = all_close([(gval, rv)], ['magnitude'], rel=1e-6)
    return finish(ok, ('wrong magnitude for %r' % desc) if not ok else desc)


# ---- engine A: conversions -----------------------------------------------------------------------------
CONV = [('J/mol', 1.0, 'E'), ('kJ/mol', 1e3, 'E'), ('cal/mol', 4.184, 'E'), ('kcal/mol', 4184.0, 'E'),
        ('eV/molecule', 1.602176634e-19 * 6.02214076e23, 'E'),
        ('K', 1.0, 'T'), ('mK', 1e-3, 'T'), ('kK', 1e3, 'T'),
        ('J/(mol K)', 1.0, 'S'), ('cal/mol/K', 4.184, 'S'), ('kJ/mol/K', 1e3, 'S'),
        ('m', 1.0, 'L'), ('dam', 10.0, 'L'), ('in', 0.0254, 'L')]


def h_convert(d: bool):
    """
    post: _[0]
    """
    begin()
    i = PARAM['i']
    j = choose('j', len(CONV))
    (u1, f1, k1), (u2, f2, k2) = CONV[i], CONV[j]
    x = R('x')
    status = 'ok'
    try:
        q = with_units(x, u1)
        try:
            y = q.in_units(u2)
            if k1 != k2:
                return finish(False, '%s -> %s converted although incompatible' % (u1, u2))
            back = in_units(with_units(y, u2), u1)
            ok, lab = all_close([(y, x * (f1 / f2)), (back, x), (to_SI_from(x, u1), x * f1),
                                 (from_SI_to(to_SI_from(x, u1), u1), x)],
                                ['ratio of magnitudes', 'there and back', 'to_SI_from', 'from_SI_to(to_SI_from)'], rel=1e-6)
            status = '%s -> %s: %s' % (u1, u2, lab)
        except UnitsError:
            ok = k1 != k2
            status = '%s -> %s: UnitsError' % (u1, u2)
    except Exception as e:
        ok, status = False, '%s -> %s raised:%s' % (u1, u2, type(e).__name__)
    return finish(ok, status)


def signature(ob, param, ret):
    st = str(ret[1]) if len(ret) > 1 else ''
    return '%s:%s' % (ob.split('_')[0], st)


def obligations(tier, seed):
    q = tier == 'quick'
    obs = [dict(name='lookup', func='d_lookup', kind='direct', param=dict(maxlen=16), timeout=900)]
    k = 3 if q else 4
    for f in range(len(ALPHABET)):
        obs.append(dict(name='parser_k%d_first_%d' % (k, f), func='h_parser', param=dict(k=k, first=f),
                        timeout=280 if q else 3000))
    for n0 in range(len(SEQ_NAMES)):
        obs.append(dict(name='lookup_sequence_%d' % n0, func='h_lookup_sequence', param=dict(k=3, fix=dict(n0=n0)), timeout=280 if q else 1200))
    for i in range(len(CONV)):
        obs.append(dict(name='convert_%d' % i, func='h_convert', param=dict(i=i), timeout=280 if q else 1200))
    return obs


def validate(tier, seed):
    import random
    import re
    res = []
    # 1. every builtin definition and prefix against the independent SI table (concrete configuration check)
    db = DB.units_db
    bad = []
    for name in sorted(db.db):
        if name not in SI:
            bad.append((name, 'not in the reference table'))
            continue
        qv = db.db[name]
        val, exps = SI[name]
        if [float(x) for x in qv.units.exps] != [float(e) for e in exps] or abs(qv.value - val) > DEF_TOL * abs(val):
            bad.append((name, qv.value, val))
    for p, v in sorted(DB.UnitsDB.prefixes.items()):
        if p not in SI_PREFIX or abs(SI_PREFIX[p] - v) > 1e-12 * v:
            bad.append(('prefix ' + p, v))
    missing = [n for n in SI if n not in db.db] + [p for p in SI_PREFIX if p not in DB.UnitsDB.prefixes]
    entry = dict(name='builtin unit/prefix definitions vs independent SI table', ok=not bad and not missing,
                 n=len(db.db) + len(DB.UnitsDB.prefixes), detail='bad=%r missing=%r' % (bad, missing))
    if bad:
        entry['violation'] = ['definition', {'bad': [str(b) for b in bad]}]
        entry['func'] = 'definitions'
    res.append(entry)
    # 2. translator validation: real lookup vs path set on names x prefixes + random strings
    import z3
    from vf.py2smt import Translator, concrete_eval
    tr = Translator(DB.UnitsDB.lookup, db, 'name')
    paths = tr.paths()
    rnd = random.Random(seed)
    corpus = list(db.db) + [p + u for p in list(DB.UnitsDB.prefixes)[:6] for u in list(db.db)[:8]]
    corpus += [''.join(rnd.choice('abcdkmJLPgs') for _ in range(rnd.randint(0, 5))) for _ in range(150)]
    mism = 0
    for s in corpus:
        pi = concrete_eval(paths, tr.var, s)
        try:
            db.lookup(s)
            real = 'return'
        except UnitsParseError:
            real = 'raise'
        except Exception:
            real = 'other'
        if pi is None or (paths[pi].kind != real and real != 'other'):
            mism += 1
    res.append(dict(name='py2smt path set vs real UnitsDB.lookup on concrete strings', ok=mism == 0, n=len(corpus),
                    detail='%d mismatches, %d paths' % (mism, len(paths))))
    # 3. tokeniser bypass: injected token lists equal what the regex produces for their space-joined text
    bad_tok = 0
    samples = [['kJ', '/', 'mol'], ['2', 'm', '^', '2'], ['(', 'm', ')', '^', '-1'], ['0.5', 's']]
    for t in samples:
        p = P.UnitsParser(' '.join(t))
        if p.tokens != t:
            bad_tok += 1
    res.append(dict(name='injected token lists vs regex tokeniser', ok=bad_tok == 0, n=len(samples), detail=''))
    return res


SEQ_NAMES = ['m', 'mm', 'kmm', 'mol', 'mmol', 'kmmol', 'Pa', 'aPa', 'daPa', 'dam', 'kJ', 'MkJ', 'zz']


def h_lookup_sequence(d: bool):
    """
    post: _[0]
    """
    begin()
    # what a name means must not depend on which names were looked up before (the unit table is process-global)
    k = PARAM.get('k', 3)
    names = [SEQ_NAMES[choose('n%d' % i, len(SEQ_NAMES))] for i in range(k)]
    for nm in names:
        exp = expected_reading(nm)
        try:
            got = DB.units_db.lookup(nm)
            val = got.value
            status = 'value'
        except UnitsParseError:
            status, val = 'error', None
        except Exception as e:
            return finish(False, 'lookup_sequence: %r raised %s after %r' % (nm, type(e).__name__, names))
        if exp is None:
            if status != 'error':
                return finish(False, 'lookup_sequence: unknown name %r accepted (value %r) in the sequence %r' % (nm, val, names))
        else:
            want = (SI_PREFIX[exp[0]] if exp[0] else 1.0) * SI[exp[1]][0]
            if status != 'value' or abs(val - want) > 1e-9 * abs(want):
                return finish(False, 'lookup_sequence: %r gives %r, expected %r, in the sequence %r' % (nm, val, want, names))
    return finish(True, 'ok')
