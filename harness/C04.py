"""C04 - a mixture's descriptors are the sum of its components' (DESIGN 4/C04): additivity of the Python layer under a
local matcher (matches of A.B = matches of A united with the shifted matches of B)."""
from vf.symkit import PARAM, REPLAY, B, begin, choose, finish, skip
import harness.C02 as K

PROPERTY = 'C04'
FUNCTIONS_ENCODED = K.FUNCTIONS_ENCODED
BOUNDS = {
    'quick': 'components A and B of 2 atoms each (symbolic adjacency and per-(pattern, atom) match flags, 2 patterns, optional '
             'remap rules, two correction patterns sharing one descriptor name with symbolic matches per component; the same with the correction '
             'descriptor carrying the name of a group); the pair is their disjoint union with B shifted; ring pretreatment: a ring of 3/5/6/7 atoms '
             '(optionally with an oxygen, alternating or single bonds) next to a carbon 6-ring (alternating or single), either perception order',
    'thorough': 'A and B of 2 atoms, 3 patterns',
}
STUBS = K.STUBS
ASSUMPTIONS = ['locality of the matcher: RDKit matches a connected fragment pattern inside one component, so the match set of '
               'A.B is the union of the components\' match sets (assumed)',
               'none of the nine shipped schemes uses a molecule-level prefix (checked at run time in validate)']
OUTSIDE = ['RDKit fragment handling of dotted SMILES']
REALISED = []


def h_mixture(d: bool):
    """
    post: _[0]
    """
    begin()
    na, nb, P = PARAM.get('na', 2), PARAM.get('nb', 2), PARAM.get('P', 3)
    adjA, flA = K.build_case(na, P, prefix='A')
    adjB, flB = K.build_case(nb, P, prefix='B')
    remaps = K.REMAPS if bool(B('use_remap')) else {}
    adjU = dict(adjA)
    for (i, j), on in adjB.items():
        adjU[(i + na, j + na)] = on
    for i in range(na):
        for j in range(nb):
            adjU[(i, j + na)] = False
    flU = [flA[p] + flB[p] for p in range(P)]
    # correction descriptors: two patterns sharing one name; whether each matches in A / in B is symbolic
    dA = [bool(B('Ad0')), False]        # pattern 0 may match in A, pattern 1 may match in B (same descriptor name)
    dB = [False, bool(B('Bd1'))]

    def other(which, off_a, off_b):
        out = []
        for k in range(2):
            def fn(mol, k=k):
                ms = []
                if which in ('A', 'U') and dA[k]:
                    ms.append((off_a + 0, off_a + 1))
                if which in ('B', 'U') and dB[k]:
                    ms.append((off_b + 0, off_b + 1))
                return ms
            out.append({'name': PARAM.get('corr_name', 'Corr'), 'connectivity': K.FakePattern(fn)})
        return out
    rA = K.run_scheme(K.make_scheme(P, lambda m, p, a: flA[p][a], remaps=remaps, other=other('A', 0, 0)), K.make_mol(na, adjA))
    rB = K.run_scheme(K.make_scheme(P, lambda m, p, a: flB[p][a], remaps=remaps, other=other('B', 0, 0)), K.make_mol(nb, adjB))
    rU = K.run_scheme(K.make_scheme(P, lambda m, p, a: flU[p][a], remaps=remaps, other=other('U', 0, na)), K.make_mol(na + nb, adjU))
    for r in (rA, rB, rU):
        if r[0].startswith('raised'):
            return finish(False, r[0])
    if rA[0] != 'ok' or rB[0] != 'ok':
        return finish(rU[0] != 'ok', 'a component cannot be decomposed but the pair can')
    if rU[0] != 'ok':
        return finish(False, 'both components decompose but the pair does not')
    want = dict(rA[1])
    for k, v in rB[1].items():
        want[k] = want.get(k, 0) + v
    return finish(rU[1] == want, 'descriptors of the pair are not the sum of the components\'',
                  sorted(rU[1].items()), sorted(want.items()))


def _fx(name, n):
    v = PARAM.get('fix', {}).get(name)
    return v if v is not None else choose(name, n)


def _ring_parts(size, hetero, phase, off):
    """atoms, bonds and the ring tuple of one ring: `hetero` puts an oxygen at position 0; phase 0/1 = alternating
    single/double starting with single/double, phase 2 = all single"""
    rf = K.rf
    S, D = rf.BondType.SINGLE, rf.BondType.DOUBLE
    atoms = [rf.FAtom(8 if (hetero and k == 0) else 6) for k in range(size)]
    bts = [S if phase == 2 else ((S, D)[(k + phase) % 2]) for k in range(size)]
    bonds = [rf.FBond(off + k, off + (k + 1) % size, bts[k]) for k in range(size)]
    return atoms, bonds, tuple(off + k for k in range(size))


def _aromatise(atoms, bonds, rings):
    rf, SC = K.rf, K.SC
    mol = rf.FMol(atoms, bonds, rings=rings)
    saved = SC.Chem
    SC.Chem = rf.FakeChem()
    try:
        SC._aromatization_Benson(mol)
    finally:
        SC.Chem = saved
    return mol


def h_mixture_rings(d: bool):
    """
    post: _[0]
    """
    begin()
    szA = [3, 5, 6, 7][_fx('szA', 4)]
    hetA = bool(B('heteroA'))
    phA = choose('phaseA', 3)
    phB = choose('phaseB', 3)
    order = _fx('order', 2)                 # which ring the perception lists first
    from vf.symkit import NoTracing
    with NoTracing():                       # concrete inputs from here on (see K.run_scheme)
        try:
            aA, bA, rA = _ring_parts(szA, hetA, phA, 0)
            mA = _aromatise(aA, bA, [rA])
            aB, bB, rB = _ring_parts(6, False, phB, 0)
            mB = _aromatise(aB, bB, [rB])
            uA, ubA, urA = _ring_parts(szA, hetA, phA, 0)
            uB, ubB, urB = _ring_parts(6, False, phB, szA)
            mU = _aromatise(uA + uB, ubA + ubB, [urA, urB] if order == 0 else [urB, urA])
        except Exception as e:
            return finish(False, 'raised:' + type(e).__name__)
        sep = [(str(b.GetBondType()), bool(b.aromatic)) for b in mA.bonds] + [(str(b.GetBondType()), bool(b.aromatic)) for b in mB.bonds]
        uni = [(str(b.GetBondType()), bool(b.aromatic)) for b in mU.bonds]
        sepa = [bool(a.aromatic) for a in mA.atoms] + [bool(a.aromatic) for a in mB.atoms]
        unia = [bool(a.aromatic) for a in mU.atoms]
    return finish(sep == uni and sepa == unia, 'rings: aromatisation of two disconnected rings differs from that of each ring alone',
                  szA, hetA, phA, phB, order)


def signature(ob, param, ret):
    return 'mixture:%s' % (ret[1] if len(ret) > 1 else '')


def obligations(tier, seed):
    q = tier == 'quick'
    to = 200 if q else 3000
    na, nb, P = (2, 2, 2) if q else (2, 2, 3)
    obs = []
    for bits in range(2 ** P):
        for b2 in range(2):
            fix = dict(('Am_p%d_a0' % p, bool(bits >> p & 1)) for p in range(P))
            fix['Bm_p0_a0'] = bool(b2)
            obs.append(dict(name='mixture_f%d_%d' % (bits, b2), func='h_mixture', param=dict(na=na, nb=nb, P=P, fix=fix), timeout=to))
    # a correction descriptor that carries the NAME OF A GROUP ('C': a centre without counted neighbours; GRWSurface2018 has such
    # a pair, the group and the correction both called 'CC'): the counts under that name must still add up over the components
    for bits in range(2 ** 2):
        for b2 in range(2):
            fix = dict(('Am_p%d_a0' % p, bool(bits >> p & 1)) for p in range(2))
            fix['Bm_p0_a0'] = bool(b2)
            obs.append(dict(name='mixture_samename_f%d_%d' % (bits, b2), func='h_mixture',
                            param=dict(na=2, nb=2, P=2, fix=fix, corr_name='C'), timeout=to))
    # ring pretreatment (Benson aromatisation) of two disconnected rings = that of each ring alone, in either ring order
    for order in range(2):
        for sz in range(4):
            obs.append(dict(name='mixture_rings_o%d_z%d' % (order, sz), func='h_mixture_rings',
                            param=dict(fix={'order': order, 'szA': sz}), timeout=to))
    return obs


def validate(tier, seed):
    """(1) none of the shipped schemes uses a molecule-level prefix; (2) API-level additivity on a few pairs (concrete)."""
    import glob
    import warnings
    warnings.simplefilter('ignore')
    import yaml
    uses = []
    for f in sorted(glob.glob(__import__('vf.symkit').symkit.REPO + '/pgradd/data/*/scheme.yaml')):
        data = yaml.safe_load(open(f))
        for sect in ('patterns', 'other_descriptors'):
            for p in data.get(sect) or []:
                head = p['connectivity'].split('fragment')[0].strip()
                if head:
                    uses.append((f.split('/')[-2], head))
    res = [dict(name='shipped schemes use no molecule-level prefix (positive/cyclic/aromatic ...)', ok=not uses, n=9,
                detail=repr(uses[:3]))]
    import pgradd.ThermoChem  # noqa: F401
    from pgradd.GroupAdd.Library import GroupLibrary
    lib = GroupLibrary.Load('BensonGA')
    bad, n = [], 0
    mols = ['CCO', 'C=CC', 'c1ccccc1C', 'CC(=O)C', 'C1CCCCC1']
    for a in mols:
        for b in mols:
            da, db = dict(lib.GetDescriptors(a)), dict(lib.GetDescriptors(b))
            want = dict(da)
            for k, v in db.items():
                want[k] = want.get(k, 0) + v
            n += 1
            if dict(lib.GetDescriptors(a + '.' + b)) != want:
                bad.append((a, b))
    entry = dict(name="BensonGA descriptors of 'A.B' = sum over 25 pairs (real RDKit, concrete)", ok=True, n=n,
                 detail='%d differing: %r' % (len(bad), bad[:2]))
    if bad:
        entry['violation'] = [False, "descriptors of 'A.B' are not the sum", {'a': bad[0][0], 'b': bad[0][1]}]
        entry['func'] = 'concrete'
    res.append(entry)
    # shipped name collision: GRWSurface2018 declares a group AND a correction descriptor called 'CC'
    lib2 = GroupLibrary.Load('GRWSurface2018')
    bad2, n2 = [], 0
    for a, b in [('[C]$[C]', 'CC'), ('CC', '[C]$[C]'), ('[C]$[C]', 'CCC'), ('C1CC1', 'c1ccccc1'), ('C1CCCC1', 'c1ccccc1'),
                 ('c1ccccc1', 'C1CC1'), ('C1CCOCC1', 'c1ccccc1')]:
        da, db = dict(lib2.GetDescriptors(a)), dict(lib2.GetDescriptors(b))
        want = dict(da)
        for k, v in db.items():
            want[k] = want.get(k, 0) + v
        n2 += 1
        if dict(lib2.GetDescriptors(a + '.' + b)) != want:
            bad2.append((a, b))
    entry2 = dict(name="GRWSurface2018 descriptors of 'A.B' = sum, incl. the group/correction pair both named 'CC' and ring "
                       "pairs (real RDKit, concrete)", ok=True, n=n2, detail='%d differing: %r' % (len(bad2), bad2[:2]))
    if bad2:
        entry2['violation'] = [False, "descriptors of 'A.B' are not the sum",
                               {'a': bad2[0][0], 'b': bad2[0][1], 'lib': 'GRWSurface2018'}]
        entry2['func'] = 'concrete'
    res.append(entry2)
    return res
