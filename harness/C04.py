"""C04 - a mixture's descriptors are the sum of its components' (DESIGN 4/C04): additivity of the Python layer under a
local matcher (matches of A.B = matches of A united with the shifted matches of B)."""
from vf.symkit import PARAM, REPLAY, B, begin, choose, finish, skip
import harness.C02 as K

PROPERTY = 'C04'
FUNCTIONS_ENCODED = K.FUNCTIONS_ENCODED
BOUNDS = {
    'quick': 'components A and B of 2 atoms each (symbolic adjacency and per-(pattern, atom) match flags, 2 patterns, optional '
             'remap rules, two correction patterns sharing one descriptor name with symbolic matches per component); the pair is their disjoint union with B shifted',
    'thorough': 'A and B of 2 atoms, 3 patterns',
}
STUBS = K.STUBS
ASSUMPTIONS = ['locality of the matcher: RDKit matches a connected fragment pattern inside one component, so the match set of '
               'A.B is the union of the components\' match sets (assumed)',
               'none of the nine shipped schemes uses a molecule-level prefix (checked at run time in validate)']
OUTSIDE = ['RDKit fragment handling of dotted SMILES']
REALISED = []


def h_mixture(d: bool):
    """
    post: _[0]
    """
    begin()
    na, nb, P = PARAM.get('na', 2), PARAM.get('nb', 2), PARAM.get('P', 3)
    adjA, flA = K.build_case(na, P, prefix='A')
    adjB, flB = K.build_case(nb, P, prefix='B')
    remaps = K.REMAPS if bool(B('use_remap')) else {}
    adjU = dict(adjA)
    for (i, j), on in adjB.items():
        adjU[(i + na, j + na)] = on
    for i in range(na):
        for j in range(nb):
            adjU[(i, j + na)] = False
    flU = [flA[p] + flB[p] for p in range(P)]
    # correction descriptors: two patterns sharing one name; whether each matches in A / in B is symbolic
    dA = [bool(B('Ad0')), False]        # pattern 0 may match in A, pattern 1 may match in B (same descriptor name)
    dB = [False, bool(B('Bd1'))]

    def other(which, off_a, off_b):
        out = []
        for k in range(2):
            def fn(mol, k=k):
                ms = []
                if which in ('A', 'U') and dA[k]:
                    ms.append((off_a + 0, off_a + 1))
                if which in ('B', 'U') and dB[k]:
                    ms.append((off_b + 0, off_b + 1))
                return ms
            out.append({'name': 'Corr', 'connectivity': K.FakePattern(fn)})
        return out
    rA = K.run_scheme(K.make_scheme(P, lambda m, p, a: flA[p][a], remaps=remaps, other=other('A', 0, 0)), K.make_mol(na, adjA))
    rB = K.run_scheme(K.make_scheme(P, lambda m, p, a: flB[p][a], remaps=remaps, other=other('B', 0, 0)), K.make_mol(nb, adjB))
    rU = K.run_scheme(K.make_scheme(P, lambda m, p, a: flU[p][a], remaps=remaps, other=other('U', 0, na)), K.make_mol(na + nb, adjU))
    for r in (rA, rB, rU):
        if r[0].startswith('raised'):
            return finish(False, r[0])
    if rA[0] != 'ok' or rB[0] != 'ok':
        return finish(rU[0] != 'ok', 'a component cannot be decomposed but the pair can')
    if rU[0] != 'ok':
        return finish(False, 'both components decompose but the pair does not')
    want = dict(rA[1])
    for k, v in rB[1].items():
        want[k] = want.get(k, 0) + v
    return finish(rU[1] == want, 'descriptors of the pair are not the sum of the components\'',
                  sorted(rU[1].items()), sorted(want.items()))


def signature(ob, param, ret):
    return 'mixture:%s' % (ret[1] if len(ret) > 1 else '')


def obligations(tier, seed):
    q = tier == 'quick'
    to = 200 if q else 3000
    na, nb, P = (2, 2, 2) if q else (2, 2, 3)
    obs = []
    for bits in range(2 ** P):
        for b2 in range(2):
            fix = dict(('Am_p%d_a0' % p, bool(bits >> p & 1)) for p in range(P))
            fix['Bm_p0_a0'] = bool(b2)
            obs.append(dict(name='mixture_f%d_%d' % (bits, b2), func='h_mixture', param=dict(na=na, nb=nb, P=P, fix=fix), timeout=to))
    return obs


def validate(tier, seed):
    """(1) none of the shipped schemes uses a molecule-level prefix; (2) API-level additivity on a few pairs (concrete)."""
    import glob
    import warnings
    warnings.simplefilter('ignore')
    import yaml
    uses = []
    for f in sorted(glob.glob(__import__('vf.symkit').symkit.REPO + '/pgradd/data/*/scheme.yaml')):
        data = yaml.safe_load(open(f))
        for sect in ('patterns', 'other_descriptors'):
            for p in data.get(sect) or []:
                head = p['connectivity'].split('fragment')[0].strip()
                if head:
                    uses.append((f.split('/')[-2], head))
    res = [dict(name='shipped schemes use no molecule-level prefix (positive/cyclic/aromatic ...)', ok=not uses, n=9,
                detail=repr(uses[:3]))]
    import pgradd.ThermoChem  # noqa: F401
    from pgradd.GroupAdd.Library import GroupLibrary
    lib = GroupLibrary.Load('BensonGA')
    bad, n = [], 0
    mols = ['CCO', 'C=CC', 'c1ccccc1C', 'CC(=O)C', 'C1CCCCC1']
    for a in mols:
        for b in mols:
            da, db = dict(lib.GetDescriptors(a)), dict(lib.GetDescriptors(b))
            want = dict(da)
            for k, v in db.items():
                want[k] = want.get(k, 0) + v
            n += 1
            if dict(lib.GetDescriptors(a + '.' + b)) != want:
                bad.append((a, b))
    entry = dict(name="BensonGA descriptors of 'A.B' = sum over 25 pairs (real RDKit, concrete)", ok=True, n=n,
                 detail='%d differing: %r' % (len(bad), bad[:2]))
    if bad:
        entry['violation'] = [False, "descriptors of 'A.B' are not the sum", {'a': bad[0][0], 'b': bad[0][1]}]
        entry['func'] = 'concrete'
    res.append(entry)
    return res
