"""C05 - correlations are thermodynamically consistent with their data (DESIGN 4/C05)."""
import itertools

from vf.symkit import PARAM, REPLAY, R, B, all_close, begin, choose, close, finish, skip
from vf.stubs import thermo as th
from vf.stubs import lindict as _ld  # noqa: F401
from vf.stubs.numeric import PolySpline, ln, ln_axioms

PROPERTY = 'C05'
FUNCTIONS_ENCODED = [
    'pgradd.ThermoChem.raw_data:ThermochemRawData.__init__',
    'pgradd.ThermoChem.raw_data:ThermochemRawData.get_CpoR',
    'pgradd.ThermoChem.raw_data:ThermochemRawData.get_HoRT',
    'pgradd.ThermoChem.raw_data:ThermochemRawData.get_SoR',
    'pgradd.ThermoChem.raw_data:ConstantSpline.__call__',
    'pgradd.ThermoChem.raw_data:ConstantSpline.integral',
    'pgradd.ThermoChem.base:ThermochemBase.get_GoRT',
    'pgradd.ThermoChem.base:ThermochemBase.check_range',
    'pgradd.ThermoChem.incomplete:ThermochemIncomplete._setup_correlation',
    'pgradd.ThermoChem.incomplete:ThermochemIncomplete._expand_ND_Cp_data',
    'pgradd.ThermoChem.incomplete:ThermochemIncomplete.get_CpoR',
    'pgradd.ThermoChem.incomplete:ThermochemIncomplete.get_HoRT',
    'pgradd.ThermoChem.incomplete:ThermochemIncomplete.get_SoR',
]
BOUNDS = {
    'quick': 'placement obligations: concrete tables of 2, 3, 4 points (unsorted supply order) with T_ref, T and the range symbolic reals (every placement relative to the span is a path); all values symbolic reals: supply order for tables of 1..3 points; H-integral identity for 1..2 points; '
             'S-integral/Cp/reference values/G for 1 point; wrapper delegation for 1..2 points; one seeded shipped group from each of six libraries with its real FITPACK spline as an exact piecewise polynomial and T symbolic over the whole range; T_ref, T anywhere in a '
             'symbolic range with lo>0 (below/at/inside/above the span are paths)',
    'thorough': 'supply order and H-integral for 1..4 points; S-integral, Cp/refs, wrapper for 1..3 points; the 4-point H-integral and the '
                '2- and 3-point S-integrals are split into 9 obligations each over the position (below / inside / above the table span) of T and '
                'of T_ref, 400 s each: the same-side and both-inside regions close, regions where the integral crosses a span end with all '
                'table values symbolic mostly do not (nonlinear real arithmetic, uninterpreted logarithm) and are reported inconclusive - the '
                'placement obligations with concrete tables cover those branches; 72 shipped groups (seeded) of six libraries: the real FITPACK spline '
                'as an exact piecewise polynomial with T symbolic over the whole range (H integral and Cp)',
}
STUBS = ['PolySpline/SplineFactory for InterpolatedUnivariateSpline', 'NpShim', 'LN uninterpreted + QuadStub',
         'warnings.warn recorder', 'LinDict for the Cp mapping keyed by symbolic temperatures']
ASSUMPTIONS = [
    'float := real number (z3 Real); IEEE rounding, NaN, inf outside the claim',
    'FITPACK interpolant of N<=4 points with k=N-1 is the interpolating polynomial (validated concretely each run)',
    'quad(f,a,b) returns the exact integral for integrands spline(t)/t (shape checked symbolically at a fresh t); '
    'np.log is an uninterpreted function constrained only by true facts (ratio rule on the four base points, monotone)',
    'valid range has lo > 0; table temperatures distinct',
]
OUTSIDE = ['tables with 5..16 points and symbolic values (interior knots: piecewise cubic)', 'array-valued T',
           'FITPACK/QUADPACK numerical error (replay tolerance only)']
REALISED = ['permutation index in init_order (solver-enumerated choice among N! orders)']


CONCRETE_TABLES = {
    2: ([350.0, 900.0], [4.0, 0.0125]),
    3: ([300.0, 800.0, 500.0], [3.0, 0.02, -0.00001]),
    4: ([1000.0, 298.0, 600.0, 400.0], [2.5, 0.03, -0.00002, 0.000000005]),
}


def _build(npts, need_pos=True):
    m = th.install()
    if PARAM.get('concrete_table'):
        import vf.stubs.numeric as _nm
        _nm.UF_LOG_OF_CONSTANTS[0] = True
        # placement obligations: a concrete table (unsorted supply order) and polynomial, T_ref/T/range symbolic
        Ts, coefs = CONCRETE_TABLES[npts]
        sp = PolySpline(coefs)
        Cps = [sp(t) for t in Ts]
    else:
        Ts, Cps, sp, coefs = th.sym_table(npts)
    if not th.distinct(Ts):
        return None
    fac, q = th.patch_spline(sp)
    lo, hi, Tref = R('lo'), R('hi'), R('Tref')
    tmin, tmax = th.smin(Ts), th.smax(Ts)
    if not (0 < lo <= tmin and tmax <= hi and lo <= Tref <= hi):
        return None
    T = None
    if PARAM.get('region') is not None:
        # split of one obligation over the position of T and T_ref relative to the table span (assumed before the
        # constructor runs so that the other eight regions are pruned early); the nine regions together cover everything
        T = R('T')
        rT, rR = PARAM['region']
        if not (_in_region(T, tmin, tmax, rT) and _in_region(Tref, tmin, tmax, rR)):
            return None
    H, S = R('H'), R('S')
    obj = m['rd'].ThermochemRawData(H, S, Ts, Cps, Tref, (lo, hi))
    return dict(m=m, Ts=Ts, Cps=Cps, sp=sp, lo=lo, hi=hi, Tref=Tref, tmin=tmin, tmax=tmax, H=H, S=S, obj=obj,
                fac=fac, q=q, T=T)


def _in_region(x, tmin, tmax, r):
    if r == 0:
        return x < tmin
    if r == 1:
        return tmin <= x <= tmax
    return x > tmax


def h_integral_H(d: bool):
    """
    post: _[0]
    """
    begin()
    b = _build(PARAM.get('npts', 2))
    if b is None:
        return skip()
    T = b['T'] if b['T'] is not None else R('T')
    if not (b['lo'] <= T <= b['hi']):
        return skip()
    status = 'value'
    try:
        h = b['obj'].get_HoRT(T)
        lhs = h * T - b['H'] * b['Tref']
        rhs = th.ext_anti(b['sp'], b['tmin'], b['tmax'], T) - th.ext_anti(b['sp'], b['tmin'], b['tmax'], b['Tref'])
        ok, _ = all_close([(lhs, rhs)])
    except Exception as e:
        status, ok = 'raised:' + type(e).__name__, False
    return finish(ok, status)


def _ext_anti_S(sp, tmin, tmax, t):
    """Reference antiderivative of Cp_ext(t)/t with value 0 at tmin (independent of the code)."""
    rest = PolySpline(sp.c[1:])
    if t < tmin:
        return sp(tmin) * (ln(t) - ln(tmin))
    span = lambda u: sp.c[0] * (ln(u) - ln(tmin)) + rest.integral(tmin, u)  # noqa: E731
    if t > tmax:
        return span(tmax) + sp(tmax) * (ln(t) - ln(tmax))
    return span(t)


def h_integral_S(d: bool):
    """
    post: _[0]
    """
    begin()
    b = _build(PARAM.get('npts', 2))
    if b is None:
        return skip()
    T = b['T'] if b['T'] is not None else R('T')
    if not (b['lo'] <= T <= b['hi']):
        return skip()
    ln_axioms([T, b['Tref'], b['tmin'], b['tmax']])
    status = 'value'
    try:
        s = b['obj'].get_SoR(T)
        lhs = s - b['S']
        rhs = _ext_anti_S(b['sp'], b['tmin'], b['tmax'], T) - _ext_anti_S(b['sp'], b['tmin'], b['tmax'], b['Tref'])
        ok, _ = all_close([(lhs, rhs)])
        if b['q'] is not None and b['q'].bad:
            status, ok = 'integrand is not spline(t)/t', False
    except Exception as e:
        status, ok = 'raised:' + type(e).__name__, False
    return finish(ok, status)


def h_cp_and_refs(d: bool):
    """
    post: _[0]
    """
    begin()
    npts = PARAM.get('npts', 2)
    b = _build(npts)
    if b is None:
        return skip()
    T = R('T')
    if not (b['lo'] <= T <= b['hi']):
        return skip()
    ln_axioms([T, b['Tref'], b['tmin'], b['tmax']])
    status = 'value'
    try:
        obj = b['obj']
        pairs = [(obj.get_CpoR(T), th.ext_cp(b['sp'], b['tmin'], b['tmax'], T))]
        labels = ['Cp(T) differs from the table polynomial / constant continuation']
        for i in range(npts):
            pairs.append((obj.get_CpoR(b['Ts'][i]), b['Cps'][i]))
            labels.append('tabulated Cp not reproduced at knot %d' % i)
        pairs += [(obj.get_HoRT(b['Tref']), b['H']), (obj.get_SoR(b['Tref']), b['S']),
                  (obj.get_GoRT(T), obj.get_HoRT(T) - obj.get_SoR(T))]
        labels += ['H/RT(T_ref) != H_ref', 'S/R(T_ref) != S_ref', 'G/RT != H/RT - S/R']
        ok, status = all_close(pairs, labels)
    except Exception as e:
        status, ok = 'raised:' + type(e).__name__, False
    return finish(ok, status)


def h_init_order(d: bool):
    """
    post: _[0]
    """
    begin()
    npts = PARAM.get('npts', 3)
    m = th.install()
    Ts = [R('t%d' % i) for i in range(npts)]
    Cps = [R('y%d' % i) for i in range(npts)]
    for i in range(npts - 1):
        if not (Ts[i] < Ts[i + 1]):
            return skip()
    lo, hi, Tref = R('lo'), R('hi'), R('Tref')
    if not (lo <= Ts[0] and Ts[-1] <= hi and lo <= Tref <= hi):
        return skip()
    perms = list(itertools.permutations(range(npts)))
    perm = perms[choose('perm', len(perms))]
    H, S = R('H'), R('S')
    status = 'ok'
    try:
        facA, _ = th.patch_spline(None, record_only=True)
        A = m['rd'].ThermochemRawData(H, S, Ts, Cps, Tref, (lo, hi))
        facB, _ = th.patch_spline(None, record_only=True)
        Bo = m['rd'].ThermochemRawData(H, S, [Ts[i] for i in perm], [Cps[i] for i in perm], Tref, (lo, hi))
        ok = True
        for f in ('min_T', 'max_T', 'min_ND_Cp', 'max_ND_Cp', 'T_ref', 'ND_H_ref', 'ND_S_ref'):
            if not (getattr(A, f) == getattr(Bo, f)):
                ok, status = False, 'field %s depends on supply order' % f
        if not (list(A.Ts) == list(Bo.Ts) and list(A.ND_Cps) == list(Bo.ND_Cps)):
            ok, status = False, 'stored table depends on supply order'
        if not (Bo.min_T == Ts[0] and Bo.max_T == Ts[-1] and Bo.min_ND_Cp == Cps[0] and Bo.max_ND_Cp == Cps[-1]):
            ok, status = False, 'span ends are not those of the sorted table'
        if npts > 1:
            ca, cb = facA.calls, facB.calls
            if not (len(ca) == 1 and len(cb) == 1):
                ok, status = False, 'spline constructor not called exactly once'
            else:
                if not (list(cb[0][0]) == Ts and list(cb[0][1]) == Cps):
                    ok, status = False, 'spline built from unsorted data'
                if not (cb[0][2] == min(3, npts - 1) and ca[0][2] == cb[0][2]):
                    ok, status = False, 'spline order is not min(3, N-1)'
        else:
            if not (Bo.spline.ND_Cp == Cps[0]):
                ok, status = False, 'constant spline does not hold the single Cp'
    except Exception as e:
        status, ok = 'raised:' + type(e).__name__, False
    return finish(ok, status, list(perm))


def h_wrapper_delegates(d: bool):
    """
    post: _[0]
    """
    begin()
    from pgradd.Error import IncompleteDataError
    from vf.stubs.lindict import LinDict
    npts = PARAM.get('npts', 2)
    getter = PARAM.get('getter', 'get_HoRT')
    m = th.install()
    Ts, Cps, sp, coefs = th.sym_table(npts)
    if not th.distinct(Ts):
        return skip()
    th.patch_spline(sp)
    lo, hi, Tref, T = R('lo'), R('hi'), R('Tref'), R('T')
    tmin, tmax = th.smin(Ts), th.smax(Ts)
    if not (0 < lo <= tmin and tmax <= hi and lo <= Tref <= hi and lo <= T <= hi):
        return skip()
    hasH, hasS = B('hasH'), B('hasS')
    H = R('H') if hasH else None
    S = R('S') if hasS else None
    data = (dict if REPLAY is not None else LinDict)(list(zip(Ts, Cps)))
    ln_axioms([T, Tref, tmin, tmax])
    status = 'value'
    try:
        w = m['inc'].ThermochemIncomplete(H, S, data, Tref, (lo, hi))
        ref = m['rd'].ThermochemRawData(H if hasH else 0.0, S if hasS else 0.0, Ts, Cps, Tref, (lo, hi))
        has = {'get_HoRT': hasH, 'get_SoR': hasS, 'get_CpoR': True}[getter]
        try:
            # delegation: the two expression trees coincide, so exact equality is what is asked
            # of z3 (a float tolerance only in replay)
            eq = close if REPLAY is not None else (lambda a, b: a == b)
            v = getattr(w, getter)(T)
            ok = has and eq(v, getattr(ref, getter)(T))
            if getter != 'get_CpoR' and hasH and hasS:
                ok = ok and eq(w.get_GoRT(T), ref.get_HoRT(T) - ref.get_SoR(T))
        except IncompleteDataError:
            status = 'incomplete'
            ok = not has
    except Exception as e:
        status, ok = 'raised:' + type(e).__name__, False
    return finish(ok, status)


def signature(ob, param, ret):
    base = ob.split('_n')[0]
    return '%s:%s' % (base, ret[1] if len(ret) > 1 else '')


def obligations(tier, seed):
    q = tier == 'quick'
    to = 200 if q else 1500
    obs = []
    for n in (1, 2, 3) if q else (1, 2, 3, 4):
        obs.append(dict(name='init_order_n%d' % n, func='h_init_order', param=dict(npts=n), timeout=to))
    regions = [(a, b) for a in range(3) for b in range(3)]
    for n in (1, 2) if q else (1, 2, 3):
        obs.append(dict(name='integral_H_n%d' % n, func='h_integral_H', param=dict(npts=n), timeout=to))
    if not q:
        for rg in regions:
            obs.append(dict(name='integral_H_n4_r%d%d' % rg, func='h_integral_H', param=dict(npts=4, region=list(rg)), timeout=400))
    for n in (2, 3, 4):
        obs.append(dict(name='placement_S_n%d' % n, func='h_integral_S', param=dict(npts=n, concrete_table=True), timeout=to, abstraction=True))
        obs.append(dict(name='placement_H_n%d' % n, func='h_integral_H', param=dict(npts=n, concrete_table=True), timeout=to))
        obs.append(dict(name='placement_refs_n%d' % n, func='h_cp_and_refs', param=dict(npts=n, concrete_table=True), timeout=to, abstraction=True))
    for n in (1,) if q else (1, 2, 3):
        if n == 1:
            obs.append(dict(name='integral_S_n%d' % n, func='h_integral_S', param=dict(npts=n), timeout=to, abstraction=True))
        else:
            for rg in regions:
                obs.append(dict(name='integral_S_n%d_r%d%d' % ((n,) + rg), func='h_integral_S',
                                param=dict(npts=n, region=list(rg)), timeout=400, abstraction=True))
        obs.append(dict(name='cp_and_refs_n%d' % n, func='h_cp_and_refs', param=dict(npts=n), timeout=to, abstraction=True))
    import random
    rnd = random.Random(seed)
    for lib, ngroups in (('BensonGA', 95), ('GRWSurface2018', 66), ('SalciccioliGA2012', 75), ('XieGA2022', 24),
                         ('GuSolventGA2017Aq', 75), ('PtSurface2023', 67)):
        for gi in sorted(rnd.sample(range(ngroups), 1 if q else 12)):
            obs.append(dict(name='shipped_%s_g%d' % (lib, gi), func='h_shipped_table',
                            param=dict(ship_lib=lib, ship_group=gi), timeout=200 if q else 600))
    for n in (1, 2) if q else (1, 2, 3):
        for g in ('get_CpoR', 'get_HoRT', 'get_SoR'):
            obs.append(dict(name='wrapper_delegates_n%d_%s' % (n, g), func='h_wrapper_delegates',
                            param=dict(npts=n, getter=g), timeout=to, abstraction=(g != 'get_CpoR')))
    return obs


def validate(tier, seed):
    from vf.stubs.validate_numeric import validate_polyspline, validate_quad, validate_piecewise
    return [validate_polyspline(seed), validate_quad(seed), validate_piecewise(seed), validate_array_mode(seed)]


def validate_array_mode(seed):
    """array-valued T (outside the symbolic claim): the real get_CpoR on a numpy array must agree with the scalar calls at the
    knots, at both ends, inside and outside the span (concrete, real numpy/FITPACK)"""
    import random
    import numpy as np
    from pgradd.ThermoChem import ThermochemRawData
    rnd = random.Random(seed + 3)
    bad, n = [], 0
    for _ in range(30):
        N = rnd.randint(1, 7)
        Ts = sorted(rnd.sample(range(200, 1500, 10), N))
        Cps = [rnd.uniform(2, 30) for _ in Ts]
        c = ThermochemRawData(1.0, 2.0, [float(t) for t in Ts], Cps, 298.15, (100.0, 2000.0))
        pts = [float(t) for t in Ts] + [100.0, 2000.0, (Ts[0] + Ts[-1]) / 2.0, Ts[0] - 5.0, Ts[-1] + 5.0]
        arr = c.get_CpoR(np.array(pts))
        for t, v in zip(pts, arr):
            n += 1
            if abs(float(v) - c.get_CpoR(t)) > 1e-9 * (1 + abs(c.get_CpoR(t))):
                bad.append((Ts, t, float(v), c.get_CpoR(t)))
    entry = dict(name='array-valued get_CpoR agrees with scalar calls at knots, ends, inside and outside the span (concrete)', ok=True, n=n,
                 detail='%d disagreements: %r' % (len(bad), bad[:1]))
    if bad:
        entry['violation'] = [False, 'array_mode: Cp/R from an array of temperatures differs from the scalar value', {'case': str(bad[0])[:200]}]
        entry['func'] = 'concrete'
    return entry


# ---- shipped tables: the real FITPACK spline of a shipped group as an exact piecewise polynomial, T symbolic --------------
_SHIP = None
if PARAM.get('ship_lib'):
    import warnings as _w
    _w.simplefilter('ignore')
    import pgradd.ThermoChem  # noqa: F401
    from pgradd.GroupAdd.Library import GroupLibrary as _GL
    from vf.stubs.numeric import PiecewisePoly as _PWP
    _lib = _GL.Load(PARAM['ship_lib'])
    _g = [g for g in _lib if 'thermochem' in _lib[g] and _lib[g]['thermochem'].has_ND_Cp()][PARAM['ship_group']]
    _real = _lib[_g]['thermochem']._correlation
    # one tabulated point: the repo's own ConstantSpline (pure Python) is what runs; the oracle uses the constant polynomial
    _stub = _PWP.from_real_spline(_real.spline) if len(_real.Ts) > 1 else PolySpline([float(_real.ND_Cps[0])])
    _SHIP = (str(_g), _real, _stub)


def h_shipped_table(d: bool):
    """
    post: _[0]
    """
    begin()
    m = th.install()
    name, real, stub = _SHIP
    if stub is None:
        return skip()
    obj = object.__new__(m['rd'].ThermochemRawData)
    for f in ('Ts', 'ND_Cps', 'min_T', 'max_T', 'min_ND_Cp', 'max_ND_Cp', 'ND_H_ref', 'ND_S_ref', 'T_ref', 'range'):
        v = getattr(real, f)
        setattr(obj, f, tuple(float(x) for x in v) if isinstance(v, (tuple, list)) else (None if v is None else float(v)))
    obj.spline = stub if len(real.Ts) > 1 else m['rd'].ConstantSpline(float(real.ND_Cps[0]))
    lo, hi = obj.range
    T = R('T')
    if not (lo <= T <= hi):
        return skip()
    try:
        h = obj.get_HoRT(T)
        cp = obj.get_CpoR(T)
        lhs = h * T - obj.ND_H_ref * obj.T_ref
        rhs = th.ext_anti(stub, obj.min_T, obj.max_T, T) - th.ext_anti(stub, obj.min_T, obj.max_T, obj.T_ref)
        ok, status = all_close([(lhs, rhs), (cp, th.ext_cp(stub, obj.min_T, obj.max_T, T))],
                               ['shipped: T*H/RT(T) - T_ref*H_ref is not the integral of Cp/R for group %s' % name,
                                'shipped: Cp/R(T) is not the spline / its constant continuation for group %s' % name])
    except Exception as e:
        ok, status = False, 'shipped: raised %s for group %s' % (type(e).__name__, name)
    return finish(ok, status)
