"""C16 - a RING reaction rule applies exactly its declared edit per match (DESIGN 4/C16)."""
import itertools

from vf.symkit import PARAM, REPLAY, NoTracing, B, I, begin, choose, finish, skip
from vf.stubs import rdfakes as rf

import pgradd.RDkitWrapper.ReactionQuery as RQ
import pgradd.RDkitWrapper.MolQuery as MQ
from pgradd.RINGParser.Reader import Read
from pgradd.Error import RINGReaderError, RINGError

PROPERTY = 'C16'
FUNCTIONS_ENCODED = [
    'pgradd.RINGParser.ReactionQueryRead:ReactionQueryReader.Read',
    'pgradd.RINGParser.ReactionQueryRead:ReactionQueryReader.ReadBondForm',
    'pgradd.RINGParser.ReactionQueryRead:ReactionQueryReader.ReadBondBreak',
    'pgradd.RINGParser.ReactionQueryRead:ReactionQueryReader.ReadBondIncrease',
    'pgradd.RINGParser.ReactionQueryRead:ReactionQueryReader.ReadBondDecrease',
    'pgradd.RINGParser.ReactionQueryRead:ReactionQueryReader.ReadRadicalIncrease',
    'pgradd.RINGParser.ReactionQueryRead:ReactionQueryReader.ReadRadicalDecrease',
    'pgradd.RINGParser.ReactionQueryRead:ReactionQueryReader.ReadRadicalModify',
    'pgradd.RINGParser.ReactionQueryRead:ReactionQueryReader.ReadChargeIncrease',
    'pgradd.RINGParser.ReactionQueryRead:ReactionQueryReader.ReadChargeDecrease',
    'pgradd.RDkitWrapper.ReactionQuery:BondForm.__call__', 'pgradd.RDkitWrapper.ReactionQuery:BondBreak.__call__',
    'pgradd.RDkitWrapper.ReactionQuery:BondModify.__call__', 'pgradd.RDkitWrapper.ReactionQuery:BondIncrease.__call__',
    'pgradd.RDkitWrapper.ReactionQuery:BondDecrease.__call__', 'pgradd.RDkitWrapper.ReactionQuery:AtomTypeModify.__call__',
    'pgradd.RDkitWrapper.ReactionQuery:RadicalIncrease.__call__', 'pgradd.RDkitWrapper.ReactionQuery:RadicalDecrease.__call__',
    'pgradd.RDkitWrapper.ReactionQuery:ChargeIncrease.__call__', 'pgradd.RDkitWrapper.ReactionQuery:ChargeDecrease.__call__',
    'pgradd.RDkitWrapper.ReactionQuery:ReactionQuery.RunReactants',
]
BT = rf.BondType
BOUNDS = {
    'quick': 'rules over a 3-atom reactant (C-H and C-C single bonds) with every sequence of <= 2 edits from 18 edit forms; '
             'each transformation class on a 4-atom molecule with symbolic radical/charge integers, symbolic bond types and a '
             'symbolic injective mapping of rule indices to molecule atoms; RunReactants with <= 3 matches',
    'thorough': 'edit sequences of <= 3',
}
STUBS = ['RDKit fakes (RWMol with atoms/bonds as data) for the transformation classes and RunReactants; the reactant matcher '
         'returns a symbolic list of matches; GetMolFrags returns the unsplit molecule']
ASSUMPTIONS = ['electron balance of an atom = change of (sum of bond orders + radical electrons + formal charge); must be 0',
               'RDKit GetMolFrags/sanitisation outside; bond orders single..quadruple']
OUTSIDE = ['fragment splitting of products', 'bimolecular index offsetting beyond two reactants', 'atom-type (valence) modification '
           'through real RDKit query atoms']
REALISED = ['edit choices, bond types, the index mapping (solver-enumerated)']

REACTANT = 'reactant r1{C labeled c1 H labeled h1 single bond to c1 C labeled c2 single bond to c1}'
LABELS = ['c1', 'h1', 'c2']
BONDS0 = {frozenset(('c1', 'h1')): 1, frozenset(('c1', 'c2')): 1}
EDITS = []
for a, b in (('c1', 'h1'), ('c1', 'c2'), ('h1', 'c2')):
    EDITS.append(('break', a, b, 'break bond(%s,%s)' % (a, b)))
    EDITS.append(('form', a, b, 'form bond(%s,%s)' % (a, b)))
    EDITS.append(('inc', a, b, 'increase bond order(%s,%s)' % (a, b)))
    EDITS.append(('dec', a, b, 'decrease bond order(%s,%s)' % (a, b)))
for a in LABELS:
    EDITS.append(('rad+', a, None, 'increase number of radical(%s)' % a))
    EDITS.append(('rad-', a, None, 'decrease number of radical(%s)' % a))
EDITS.append(('form2', 'h1', 'c2', 'form double bond(h1,c2)'))
EDITS.append(('chg+', 'c1', None, 'increase formal charge(c1)'))
EDITS.append(('chg-', 'c2', None, 'decrease formal charge(c2)'))


def _expected(seq):
    """'accepted' | 'reader-error' from the property text: per-atom electron balance, plus: a bond can only be broken where the
    reactant pattern declares one of that kind"""
    bal = dict((l, 0) for l in LABELS)
    for kind, a, b, _ in seq:
        if kind == 'break':
            if BONDS0.get(frozenset((a, b))) != 1:
                return 'reader-error'
            bal[a] += 1
            bal[b] += 1
        elif kind in ('form', 'inc'):
            bal[a] -= 1
            bal[b] -= 1
        elif kind == 'form2':
            bal[a] -= 2
            bal[b] -= 2
        elif kind == 'dec':
            bal[a] += 1
            bal[b] += 1
        elif kind in ('rad+', 'chg+'):
            bal[a] -= 1
        elif kind in ('rad-', 'chg-'):
            bal[a] += 1
    return 'accepted' if all(v == 0 for v in bal.values()) else 'reader-error'


def h_balance(d: bool):
    """
    post: _[0]
    """
    begin()
    k = choose('nedits', PARAM.get('k', 2)) + 1
    seq = [EDITS[choose('e%d' % i, len(EDITS))] for i in range(k)]
    text = 'rule r{%s %s}' % (REACTANT, ' '.join(e[3] for e in seq))
    with NoTracing():           # concrete text through the real Read with the real RDKit
        try:
            q = Read(text)
            got = 'accepted' if q is not None else 'none'
        except RINGReaderError:
            got = 'reader-error'
        except RINGError as e:
            got = 'ring-error:' + type(e).__name__
        except Exception as e:
            got = 'raised:' + type(e).__name__
    want = _expected(seq)
    return finish(got == want, 'rule_readable/balance: %r -> %s, expected %s' % (text[len('rule r{') + len(REACTANT) + 1:-1], got, want))


# --- transformation classes on a fake RWMol ------------------------------------------------------------
NATOMS = 4
PAIRS = [(0, 1), (0, 2), (0, 3), (1, 2), (1, 3), (2, 3)]
ORDER = [None, BT.SINGLE, BT.DOUBLE, BT.TRIPLE, BT.QUADRUPLE]


def _mol(target):
    """4 atoms with symbolic radical/charge; the target pair carries any bond order (or none), two other pairs carry a
    single bond or none (bystanders that must stay untouched)"""
    atoms = [rf.FAtom([6, 8, 1, 7][i], radical=I('rad%d' % i), charge=I('chg%d' % i)) for i in range(NATOMS)]
    bonds = []
    table = {}
    others = [p for p in PAIRS if p != target][:2]
    for (i, j) in PAIRS:
        if (i, j) == target:
            o = choose('bond_target', 5)
        elif (i, j) in others:
            o = choose('bond%d%d' % (i, j), 2)
        else:
            o = 0
        table[(i, j)] = o
        if o:
            bonds.append(rf.FBond(i, j, ORDER[o]))
    return rf.FRWMol(rf.FMol(atoms, bonds)), table


def _snap(m):
    return ([(a.z, a.radical, a.charge, a.is_query) for a in m.atoms],
            dict(((min(b.a, b.b), max(b.a, b.b)), b.btype) for b in m.bonds), len(m.bonds))


def h_edit(d: bool):
    """
    post: _[0]
    """
    begin()
    cls = PARAM['cls']
    inj = list(itertools.permutations(range(NATOMS), 2))
    mapped = list(inj[choose('map', len(inj))])             # rule index 0,1 -> molecule atoms (injective)
    a, b = mapped
    key = (min(a, b), max(a, b))
    m, table = _mol(key)
    before = _snap(m)
    saved = (RQ.Chem, RQ.rdqueries)
    RQ.Chem, RQ.rdqueries = rf.FakeChem(), rf.FakeRdqueries()
    status = 'ok'
    try:
        cur = table[key]
        if cls == 'BondForm':
            t = ORDER[choose('newtype', 4) + 1]
            if cur:
                return skip()           # forming a bond where one exists is refused by RDKit
            RQ.BondForm(0, 1, t)(m, mapped)
            want_bonds = dict(before[1])
            want_bonds[key] = t
            want_atoms = before[0]
        elif cls == 'BondBreak':
            RQ.BondBreak(0, 1)(m, mapped)
            want_bonds = dict(before[1])
            want_bonds.pop(key, None)
            want_atoms = before[0]
        elif cls == 'BondModify':
            t = ORDER[choose('newtype', 4) + 1]
            RQ.BondModify(0, 1, t)(m, mapped)
            want_bonds = dict(before[1])
            want_bonds[key] = t
            want_atoms = before[0]
        elif cls in ('BondIncrease', 'BondDecrease'):
            if not cur:
                return skip()
            up = cls == 'BondIncrease'
            if up and cur == 4:
                return skip()           # quintuple and above: outside the bound
            getattr(RQ, cls)(0, 1)(m, mapped)
            want_bonds = dict(before[1])
            new = cur + (1 if up else -1)
            if new == 0:
                want_bonds.pop(key)
            else:
                want_bonds[key] = ORDER[new]
            want_atoms = before[0]
        else:
            want_bonds = dict(before[1])
            want_atoms = list(before[0])
            z, r, c, qa = want_atoms[a]
            if cls == 'RadicalIncrease':
                RQ.RadicalIncrease(0)(m, mapped)
                want_atoms[a] = (z, r + 1, c, qa)
            elif cls == 'RadicalDecrease':
                RQ.RadicalDecrease(0)(m, mapped)
                want_atoms[a] = (z, r - 1, c, qa)
            elif cls == 'ChargeIncrease':
                RQ.ChargeIncrease(0)(m, mapped)
                want_atoms[a] = (z, r, c + 1, qa)
            elif cls == 'ChargeDecrease':
                RQ.ChargeDecrease(0)(m, mapped)
                want_atoms[a] = (z, r, c - 1, qa)
            elif cls == 'AtomTypeModify':
                nr, nc = I('newrad'), I('newchg')
                val = choose('valence', 2)
                RQ.AtomTypeModify(0, nr, nc, val)(m, mapped)
                want_atoms[a] = (z, nr, nc, bool(val))
            else:
                raise AssertionError(cls)
    except Exception as e:
        return finish(False, 'edit_effect: %s raised %s' % (cls, type(e).__name__))
    finally:
        RQ.Chem, RQ.rdqueries = saved
    after = _snap(m)
    if after[2] != len(after[1]):
        return finish(False, 'edit_effect: %s left a duplicate bond' % cls)
    if after[1] != want_bonds:
        return finish(False, 'edit_effect: %s changed bonds other than the declared one (mapping %r)' % (cls, mapped))
    for i in range(NATOMS):
        if tuple(after[0][i]) != tuple(want_atoms[i]):
            return finish(False, 'edit_effect: %s changed atom %d unexpectedly (mapping %r)' % (cls, i, mapped))
    if sorted(x[0] for x in after[0]) != sorted(x[0] for x in before[0]):
        return finish(False, 'edit_effect: %s does not conserve the atoms per element' % cls)
    return finish(True, 'ok')


def h_per_match(d: bool):
    """
    post: _[0]
    """
    begin()
    nm = choose('nmatch', 4)
    allm = [(0, 1), (1, 0), (2, 1)]
    matches = allm[:nm]
    saved = (RQ.Chem, RQ.rdqueries, MQ.Chem)
    RQ.Chem, RQ.rdqueries, MQ.Chem = rf.FakeChem(), rf.FakeRdqueries(), rf.FakeChem()
    try:
        rq = RQ.ReactionQuery()
        mq = MQ.MolQuery()
        mq.name = 'r1'
        mq.atom_names = ['a', 'b']
        mq.GetQueryMatches = lambda mol, debug=0: tuple(matches)
        rq.AppendReactantQuery(mq)
        rq.transformations.append(RQ.RadicalIncrease(0))
        rq.transformations.append(RQ.BondBreak(0, 1))
        rads = [I('rad%d' % i) for i in range(3)]
        mol = rf.FMol([rf.FAtom(6, radical=rads[i]) for i in range(3)], [rf.FBond(0, 1, BT.SINGLE), rf.FBond(1, 2, BT.SINGLE)])
        out = rq.RunReactants(mol)
    except Exception as e:
        return finish(False, 'per_match: raised ' + type(e).__name__)
    finally:
        RQ.Chem, RQ.rdqueries, MQ.Chem = saved
    if len(out) != len(matches):
        return finish(False, 'per_match: %d product sets for %d matches' % (len(out), len(matches)))
    for mt, prods in zip(matches, out):
        p = prods[0]
        for i in range(3):
            want = rads[i] + (1 if i == mt[0] else 0)
            if p.atoms[i].radical != want:
                return finish(False, 'per_match: product of match %r is not "the reactant with exactly this match edited"' % (mt,))
        key = (min(mt), max(mt))
        left = sorted((min(b.a, b.b), max(b.a, b.b)) for b in p.bonds)
        if left != sorted(k for k in [(0, 1), (1, 2)] if k != key):
            return finish(False, 'per_match: wrong bonds in the product of match %r' % (mt,))
    if [a.radical for a in mol.atoms] != rads or len(mol.bonds) != 2:
        return finish(False, 'per_match: the reactant molecule was modified')
    # the SAME rule object run a second time, on another molecule with another match list: nothing of the first run may remain
    nm2 = choose('nmatch2', 3)
    matches[:] = [(1, 2), (2, 1)][:nm2]
    RQ.Chem, RQ.rdqueries, MQ.Chem = rf.FakeChem(), rf.FakeRdqueries(), rf.FakeChem()
    try:
        mol2 = rf.FMol([rf.FAtom(6, radical=0) for _ in range(3)], [rf.FBond(0, 1, BT.SINGLE), rf.FBond(1, 2, BT.SINGLE)])
        out2 = rq.RunReactants(mol2)
    except Exception as e:
        return finish(False, 'per_match: second run of the same rule raised ' + type(e).__name__)
    finally:
        RQ.Chem, RQ.rdqueries, MQ.Chem = saved
    if len(out2) != len(matches):
        return finish(False, 'per_match: second run of the same rule gives %d product sets for %d matches' % (len(out2), len(matches)))
    for mt, prods in zip(matches, out2):
        p = prods[0]
        if [x.radical for x in p.atoms] != [1 if i == mt[0] else 0 for i in range(3)]:
            return finish(False, 'per_match: second run of the same rule edits atoms of the first run')
    return finish(True, 'ok')


def signature(ob, param, ret):
    st = str(ret[1]) if len(ret) > 1 else ''
    return st.split(':')[0] if ':' in st else '%s:%s' % (ob, st)


CLASSES = ['BondForm', 'BondBreak', 'BondModify', 'BondIncrease', 'BondDecrease', 'RadicalIncrease', 'RadicalDecrease',
           'ChargeIncrease', 'ChargeDecrease', 'AtomTypeModify']


def obligations(tier, seed):
    q = tier == 'quick'
    to = 200 if q else 3000
    obs = []
    k = 2 if q else 3
    for e0 in range(len(EDITS)):
        obs.append(dict(name='balance_k%d_e%d' % (k, e0), func='h_balance', param=dict(k=k, fix=dict(e0=e0)), timeout=to))
    for c in CLASSES:
        obs.append(dict(name='edit_' + c, func='h_edit', param=dict(cls=c), timeout=to))
    obs.append(dict(name='per_match', func='h_per_match', param={}, timeout=to))
    return obs


def validate(tier, seed):
    """Concrete, real RDKit: a textual C-H scission rule can be read and run on ethane: one product set per match, each
    the reactant with exactly one C-H bond broken and both atoms radical; atoms per element conserved."""
    from rdkit import Chem
    text = ('rule r{reactant r1{C labeled c1 H labeled h1 single bond to c1} break bond(c1,h1) '
            'increase number of radical(c1) increase number of radical(h1)}')
    entry = dict(name='C-H scission rule read from text and run on ethane (real RDKit)', n=1, ok=True)
    try:
        rq = Read(text)
        prods = rq.RunReactants(Chem.MolFromSmiles('CC'))
        smi = [sorted(Chem.MolToSmiles(m) for m in p) for p in prods]
        good = len(prods) == 6 and all(s == ['[H]', '[H]C([H])([H])[C]([H])[H]'] or len(s) == 2 for s in smi)
        atoms = all(sum(m.GetNumAtoms() for m in p) == 8 for p in prods)
        entry['detail'] = '%d product sets, e.g. %r' % (len(prods), smi[:1])
        if not (good and atoms):
            entry['violation'] = [False, 'rule_readable: wrong products', {'products': str(smi)[:300]}]
            entry['func'] = 'concrete'
    except Exception as e:
        entry['detail'] = 'raised %s: %s' % (type(e).__name__, str(e)[:100])
        entry['violation'] = [False, 'rule_readable: raised ' + type(e).__name__, {}]
        entry['func'] = 'concrete'
    return [entry]
