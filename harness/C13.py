"""C13 - merging is a conflict-checked, order-free union (DESIGN 4/C13): one inductive update step."""
from vf.symkit import PARAM, REPLAY, R, B, all_close, begin, close, finish, skip
from vf.stubs import thermo as th
from vf.stubs.numeric import isclose_stub

import pgradd.GroupAdd.Library as _L
from pgradd.Error import ReadOnlyDataError

PROPERTY = 'C13'
FUNCTIONS_ENCODED = [
    'pgradd.ThermoChem.incomplete:ThermochemIncomplete.update',
    'pgradd.ThermoChem.incomplete:ThermochemIncomplete.copy',
    'pgradd.ThermoChem.incomplete:ThermochemIncomplete.has_ND_H',
    'pgradd.ThermoChem.incomplete:ThermochemIncomplete.has_ND_S',
    'pgradd.ThermoChem.incomplete:ThermochemIncomplete.has_ND_Cp',
    'pgradd.ThermoChem.incomplete:ThermochemIncomplete._setup_correlation',
    'pgradd.GroupAdd.Library:GroupLibrary.Update',
]
TREF = 298.15
TEMPS = [300.0, 400.0, 500.0]
BOUNDS = {
    'quick': 'one update step between two arbitrary valid correlations sharing T_ref: optional H and S (symbolic reals incl. 0 '
             'and negatives), Cp points over 2 candidate temperatures with symbolic presence and values, symbolic ranges, '
             'symbolic overwrite flag; library Update over 2 groups with symbolic presence',
    'thorough': 'Cp points over 3 candidate temperatures; idempotence and symmetry over 2',
}
STUBS = ['PolySpline (Newton interpolation) for FITPACK', 'math.isclose over the reals', 'NpShim', 'warnings.warn recorder']
ASSUMPTIONS = ['float := real', 'both correlations are valid states: same T_ref, ranges contain T_ref and every table point',
               'values within the code\'s own 1e-15 relative tolerance count as the same datum',
               'histories longer than one step follow by induction on "fields are exactly the union so far"']
OUTSIDE = ['different reference temperatures between files (excluded by the property)', 'YAML include plumbing (file system)']
REALISED = []


def _mk(pfx, n, inc):
    hasH, hasS = B(pfx + 'hasH'), B(pfx + 'hasS')
    H = R(pfx + 'H') if hasH else None
    S = R(pfx + 'S') if hasS else None
    cp = {}
    for i in range(n):
        if B(pfx + 'cp%d' % i):
            cp[TEMPS[i]] = R(pfx + 'v%d' % i)
    lo, hi = R(pfx + 'lo'), R(pfx + 'hi')
    if not (0 < lo <= TREF and hi >= TEMPS[n - 1]):
        return None
    return inc.ThermochemIncomplete(H, S, cp, TREF, (lo, hi))


def _snap(c):
    return (c.ND_H_ref, c.ND_S_ref, dict(c.ND_Cp_data), c.T_ref, c.get_range())


def _same(a, b):
    return isclose_stub(a, b, rel_tol=1e-15) if REPLAY is None else (abs(a - b) <= 1e-15 * max(abs(a), abs(b)))


def _state_eq(x, y):
    """structural equality decided concretely, numeric equality by ONE solver branch"""
    pairs = []
    for k in (0, 1):
        if (x[k] is None) != (y[k] is None):
            return False
        if x[k] is not None:
            pairs.append((x[k], y[k]))
    if x[3] != y[3] or sorted(x[2]) != sorted(y[2]):
        return False
    for t in x[2]:
        pairs.append((x[2][t], y[2][t]))
    if (x[4] is None) != (y[4] is None):
        return False
    if x[4] is not None:
        pairs += [(x[4][0], y[4][0]), (x[4][1], y[4][1])]
    if not pairs:
        return True
    ok, _ = all_close(pairs)
    return ok


def _expected(a, b, overwrite):
    """(conflict?, expected state) written from the property text: field-wise union; conflict iff a datum is present in
    both with different values and overwrite is not requested."""
    conflict = False
    cp = dict(a[2])
    for t in b[2]:
        if t in cp and not overwrite and not (cp[t] == b[2][t]):
            conflict = True
        cp[t] = b[2][t]
    out = []
    for k in (0, 1):
        if b[k] is None:
            out.append(a[k])
        else:
            if a[k] is not None and not overwrite and not _same(a[k], b[k]):
                conflict = True
            out.append(b[k])
    ra, rb = a[4], b[4]
    rng = ra if rb is None else (rb if ra is None else (ra[0] if ra[0] <= rb[0] else rb[0], ra[1] if ra[1] >= rb[1] else rb[1]))
    return conflict, (out[0], out[1], cp, a[3], rng)


def h_update(d: bool):
    """
    post: _[0]
    """
    begin()
    m = th.install()
    th.patch_spline(None, record_only=True)
    n = PARAM.get('n', 2)
    a, b = _mk('a', n, m['inc']), _mk('b', n, m['inc'])
    if a is None or b is None:
        return skip()
    overwrite = B('overwrite')
    sa, sb = _snap(a), _snap(b)
    conflict, want = _expected(sa, sb, overwrite)
    try:
        a.update(b, overwrite)
        status = 'updated'
    except ReadOnlyDataError:
        status = 'read-only'
    except Exception as e:
        return finish(False, 'raised:' + type(e).__name__)
    if not _state_eq(_snap(b), sb):
        return finish(False, 'the source correlation was modified')
    if conflict:
        if status != 'read-only':
            return finish(False, 'conflicting datum accepted without the read-only-data error')
        return finish(_state_eq(_snap(a), sa), 'rejected merge left the correlation changed')
    if status != 'updated':
        return finish(False, 'read-only-data error without a conflict')
    return finish(_state_eq(_snap(a), want), 'result is not the field-wise union')


def h_idempotent_symmetric(d: bool):
    """
    post: _[0]
    """
    begin()
    m = th.install()
    th.patch_spline(None, record_only=True)
    n = PARAM.get('n', 2)
    a, b = _mk('a', n, m['inc']), _mk('b', n, m['inc'])
    if a is None or b is None:
        return skip()
    sa, sb = _snap(a), _snap(b)
    conflict, want = _expected(sa, sb, False)
    if conflict:
        return skip()
    try:
        a2 = a.copy()
        a.update(b)
        once = _snap(a)
        a.update(b)
        twice = _snap(a)
        bb = b.copy()
        bb.update(a2)
        other_way = _snap(bb)
    except Exception as e:
        return finish(False, 'raised:' + type(e).__name__)
    if not _state_eq(once, twice):
        return finish(False, 'merging the same data twice changed the correlation')
    if not _state_eq(once, other_way):
        return finish(False, 'a.update(b) differs from b.update(a)')
    return finish(True, 'ok')


def h_lib_update(d: bool):
    """
    post: _[0]
    """
    begin()
    m = th.install()
    inc = m['inc']
    names = ['g0', 'g1']

    def lib(pfx):
        contents = {}
        vals = {}
        for g in names:
            if B(pfx + 'has_' + g):
                vals[g] = R(pfx + 'H_' + g)
                contents[g] = {'thermochem': inc.ThermochemIncomplete(vals[g], None, {}, TREF, None)}
        return _L.GroupLibrary(None, contents), vals
    A, va = lib('a')
    Bl, vb = lib('b')
    overwrite = B('overwrite')
    conflict = any(g in va and g in vb and not overwrite and not _same(va[g], vb[g]) for g in names)
    before_b = dict((g, _snap(Bl[g]['thermochem'])) for g in vb)
    try:
        A.Update(Bl, overwrite)
        status = 'updated'
    except ReadOnlyDataError:
        status = 'read-only'
    except Exception as e:
        return finish(False, 'raised:' + type(e).__name__)
    if conflict:
        return finish(status == 'read-only', 'conflicting libraries merged without error')
    if status != 'updated':
        return finish(False, 'read-only-data error without a conflict')
    for g in names:
        want = vb.get(g, va.get(g))
        if want is None:
            if g in A.contents and 'thermochem' in A.contents[g]:
                return finish(False, 'group appeared from nowhere')
            continue
        if not (g in A.contents and close(A[g]['thermochem'].ND_H_ref, want)):
            return finish(False, 'merged library lacks the union for ' + g)
        if g in vb and A[g]['thermochem'] is Bl[g]['thermochem']:
            return finish(False, 'merged library aliases the source correlation object')
    for g in vb:
        if not _state_eq(_snap(Bl[g]['thermochem']), before_b[g]):
            return finish(False, 'source library modified by the merge')
    return finish(True, 'ok')


def signature(ob, param, ret):
    return '%s:%s' % (ob.split('_n')[0], ret[1] if len(ret) > 1 else '')


def _split(name, func, n, to):
    """16 obligations: the four H/S presence flags are fixed per obligation, everything else stays symbolic"""
    obs = []
    for bits in range(16):
        fix = dict(ahasH=bool(bits & 1), ahasS=bool(bits & 2), bhasH=bool(bits & 4), bhasS=bool(bits & 8))
        obs.append(dict(name='%s_n%d_p%d' % (name, n, bits), func=func, param=dict(n=n, fix=fix), timeout=to))
    return obs


def obligations(tier, seed):
    q = tier == 'quick'
    to = 280 if q else 3000
    obs = []
    for n in (1, 2) if q else (1, 2, 3):
        obs += _split('update', 'h_update', n, to)
    for n in (1,) if q else (1, 2):
        obs += _split('idem_sym', 'h_idempotent_symmetric', n, to)
    obs.append(dict(name='lib_update', func='h_lib_update', param={}, timeout=to))
    return obs


def validate(tier, seed):
    """Concrete: a file naming one group under two spellings is rejected by the real loader."""
    import os
    import shutil
    import tempfile
    import warnings
    warnings.simplefilter('ignore')
    import pgradd.ThermoChem  # noqa: F401
    from vf.stubs.validate_numeric import validate_polyspline
    res = [validate_polyspline(seed, trials=20)]
    d = tempfile.mkdtemp(prefix='verif_c13_')
    try:
        shutil.copy(__import__('vf.symkit').symkit.REPO + '/pgradd/data/BensonGA/scheme.yaml', os.path.join(d, 'scheme.yaml'))
        with open(os.path.join(d, 'library.yaml'), 'w') as f:
            f.write("units:\n  molar enthalpy: kcal/mol\n  molar entropy: cal/mol/K\n  molar heat capacity: cal/mol/K\n"
                    "groups:\n  C(C)(H)3:\n    thermochem:\n      H_ref: -10.0\n  C(H)3(C):\n    thermochem:\n      H_ref: -10.0\n")
        try:
            _L.GroupLibrary.Load(os.path.join(d, 'library.yaml'))
            ok, det = False, 'two spellings of one group accepted'
        except KeyError as e:
            ok, det = True, 'rejected: %s' % e
        except Exception as e:
            ok, det = False, 'unexpected %s: %s' % (type(e).__name__, e)
    finally:
        shutil.rmtree(d, ignore_errors=True)
    entry = dict(name='real loader rejects one group under two spellings (concrete file)', ok=True, n=1, detail=det)
    if not ok:
        entry['violation'] = [False, det, {}]
        entry['func'] = 'concrete'
    res.append(entry)
    return res
