"""C02 - descriptors equal the scheme's declared decomposition (DESIGN 4/C02): the Python layer of
GroupAdditivityScheme over fake molecules and arbitrary (symbolic) match sets.  Shared by C03 and C04."""
import itertools

from vf.symkit import PARAM, REPLAY, NoTracing, R, B, begin, choose, finish, skip
from vf.stubs import rdfakes as rf

import pgradd.GroupAdd.Scheme as SC
from pgradd.Error import PatternMatchError

PROPERTY = 'C02'
FUNCTIONS_ENCODED = [
    'pgradd.GroupAdd.Scheme:GroupAdditivityScheme.GetDescriptors',
    'pgradd.GroupAdd.Scheme:GroupAdditivityScheme._AssignCenterPattern',
    'pgradd.GroupAdd.Scheme:GroupAdditivityScheme._AssignGroup',
    'pgradd.GroupAdd.Scheme:GroupAdditivityScheme._AssignDescriptor',
    'pgradd.GroupAdd.Scheme:_aromatization_Benson',
    'pgradd.GroupAdd.Group:Group._canonical_name',
]
CENTERS = ['C', 'O', 'none']
PERIPHS = ['C', 'O', 'none']
BOUNDS = {
    'quick': 'molecules of 3 atoms with symbolic adjacency; 2 centre patterns with a symbolic match flag per (pattern, atom); '
             'a remap rule with fractional and multi-target coefficients; correction descriptors over match tuples with '
             'realised atom indices < 24 (pair matched in both directions plus a third match; two patterns feeding one descriptor name; a real MolQuery filter with symbolic constraint outcomes over permuted embeddings); one 6-ring with symbolic '
             'element and bond type per position',
    'thorough': '3 atoms x 3 patterns and 4 atoms x 2 patterns; descriptor matches of size 3 in every rotation; every ring start',
}
STUBS = ['fake Chem/molecule/atoms/bonds in Scheme.py (RDKit fakes); pattern objects whose GetQueryMatches returns an '
         'arbitrary symbolic match set (FakeMatcher)']
ASSUMPTIONS = ["RDKit's substructure search returns the embeddings the RING text denotes (C08 covers this repository's part)",
               'input normalisation (AddHs, Kekulize, sanitisation) is outside: the fake molecule is what they would deliver']
OUTSIDE = ['real molecules through RDKit', 'the scheme files read as programs over real molecules']
REALISED = ['adjacency and match flags (booleans, solver-enumerated) - the scheme code then runs concretely per path',
            'atom indices inside correction-descriptor matches (real CPython set iteration order is what runs)']


class FakePattern(object):
    def __init__(self, fn):
        self.fn = fn

    def GetQueryMatches(self, mol, debug=0, **kw):
        return tuple(self.fn(mol))

    def __str__(self):
        return '<pattern>'


def _canon(center, periphs):
    names = sorted(set(periphs))
    out = center
    for nme in names:
        k = periphs.count(nme)
        out += '(' + nme + ')' + (str(k) if k > 1 else '')
    return out


def build_case(n, P, prefix='', offset=0):
    """symbolic molecule fragment: adjacency flags, per (pattern, atom) match flags; pattern names fixed"""
    adj = {}
    for i in range(n):
        for j in range(i + 1, n):
            adj[(i, j)] = bool(B('%sbond%d%d' % (prefix, i, j)))
    flags = [[bool(B('%sm_p%d_a%d' % (prefix, p, a))) for a in range(n)] for p in range(P)]
    return adj, flags


def make_mol(n, adj):
    atoms = [rf.FAtom(6) for _ in range(n)]
    bonds = [rf.FBond(i, j, rf.BondType.SINGLE) for (i, j), on in sorted(adj.items()) if on]
    return rf.FMol(atoms, bonds)


def pattern_names(P):
    # pattern p classifies atoms as centre CENTERS[p % 3] / peripheral PERIPHS[(p + 1) % 3]
    return [(CENTERS[p % 3], PERIPHS[(p + 1) % 3]) for p in range(P)]


def make_scheme(P, flags_of, remaps=None, other=None, smiles=None, smarts=None):
    pats = []
    for p in range(P):
        cn, pn = pattern_names(P)[p]
        pats.append({'connectivity': FakePattern(lambda mol, p=p: [(a, (a + 1) % max(1, mol.GetNumAtoms()))
                                                                   for a in range(mol.GetNumAtoms()) if flags_of(mol, p, a)]),
                     'center_name': cn, 'periph_name': pn})
    return SC.GroupAdditivityScheme(patterns=pats, pretreatment_rules=[], remaps=dict(remaps or {}),
                                    other_descriptors=list(other or []), smiles_based_descriptors=list(smiles or []),
                                    smarts_based_descriptors=list(smarts or []), include=[])


def expected_groups(n, adj, flags, P, remaps):
    """('error', None) or ('ok', {name: count}) - written from the property text"""
    names = pattern_names(P)
    cls = []
    for a in range(n):
        hit = [p for p in range(P) if flags[p][a]]
        if len(hit) != 1:
            return 'error', None
        cls.append(names[hit[0]])
    out = {}
    for a in range(n):
        c, _ = cls[a]
        if c == 'none':
            continue
        per = []
        for b in range(n):
            if b != a and adj.get((min(a, b), max(a, b))):
                if cls[b][1] != 'none':
                    per.append(cls[b][1])
        g = _canon(c, per)
        out[g] = out.get(g, 0) + 1
    res = {}
    for g, k in out.items():
        if g in (remaps or {}):
            for coef, tgt in remaps[g]:
                res[tgt] = res.get(tgt, 0) + k * coef
        else:
            res[g] = res.get(g, 0) + k
    return 'ok', res


REMAPS = {'C(O)': [[0.5, 'X'], [2, 'C(C)']], 'O': [[1, 'Y']]}


def run_scheme(scheme, mol):
    # Every input is a realised (concrete) value at this point - the solver has already chosen the adjacency and the match
    # flags on this path - so the real scheme code runs outside the tracer: real CPython set/dict semantics, and ~100x
    # cheaper per path.  (The fakes are the scenario in replay as well: the Python layer is what is claimed.)
    with NoTracing():
        saved = SC.Chem
        SC.Chem = rf.FakeChem()
        try:
            return 'ok', dict(scheme.GetDescriptors(mol))
        except PatternMatchError:
            return 'error', None
        except Exception as e:
            return 'raised:' + type(e).__name__, None
        finally:
            SC.Chem = saved


def h_decompose(d: bool):
    """
    post: _[0]
    """
    begin()
    n, P = PARAM.get('n', 3), PARAM.get('P', 3)
    adj, flags = build_case(n, P)
    use_remap = bool(B('use_remap'))
    remaps = REMAPS if use_remap else {}
    mol = make_mol(n, adj)
    scheme = make_scheme(P, lambda m, p, a: flags[p][a], remaps=remaps)
    status, got = run_scheme(scheme, mol)
    want_status, want = expected_groups(n, adj, flags, P, remaps)
    if status != want_status:
        return finish(False, 'outcome %s, declared decomposition says %s' % (status, want_status))
    if status != 'ok':
        return finish(True, status)
    got = dict((k, v) for k, v in got.items() if v != 0)
    want = dict((k, v) for k, v in want.items() if v != 0)
    return finish(got == want, 'descriptors differ from the declared decomposition', sorted(got.items()), sorted(want.items()))


def _descr_scheme(matches_by_kind):
    """one always-matching centre pattern ('none' centre: no groups) + correction descriptors of the three kinds; each
    kind declares its name TWICE (two patterns feeding one descriptor, as BensonGA does for e.g. Cis): counts add up"""
    mk = matches_by_kind
    other = [{'name': 'D_ring', 'connectivity': FakePattern(lambda mol: mk['other'])},
             {'name': 'D_ring', 'connectivity': FakePattern(lambda mol: mk.get('other2', []))}]
    smiles = [{'name': 'D_smiles', 'smiles': 'q1', 'useChirality': False},
              {'name': 'D_smiles', 'smiles': 'q1b', 'useChirality': False}]
    smarts = [{'name': 'D_smarts', 'smarts': 'q2', 'useChirality': False},
              {'name': 'D_smarts', 'smarts': 'q2b', 'useChirality': False}]
    pats = [{'connectivity': FakePattern(lambda mol: [(a,) for a in range(mol.GetNumAtoms())]),
             'center_name': 'none', 'periph_name': 'none'}]
    return SC.GroupAdditivityScheme(patterns=pats, pretreatment_rules=[], remaps={'D_smarts': [[0.5, 'D_half']]},
                                    other_descriptors=other, smiles_based_descriptors=smiles,
                                    smarts_based_descriptors=smarts, include=[])


def descr_mols(mk, natoms):
    q = {'q2': 'smarts', 'q2b': 'smarts2', 'q1': 'smiles', 'q1b': 'smiles2'}
    mol = rf.FMol([rf.FAtom(6) for _ in range(natoms)], [],
                  matcher=lambda m, qq, kw: mk.get(q[qq], []) if qq in ('q2', 'q2b') else [])
    clean = rf.FMol([rf.FAtom(6) for _ in range(natoms)], [],
                    matcher=lambda m, qq, kw: mk.get(q[qq], []) if qq in ('q1', 'q1b') else [])
    return mol, clean


def h_descr(d: bool):
    """
    post: _[0]
    """
    begin()
    N = PARAM.get('N', 24)
    size = PARAM.get('size', 2)
    i = choose('i', N)
    j = choose('j', N)
    if i == j:
        return skip()
    if size == 2:
        base = (i, j)
        variants = [base, (j, i)]
    else:
        k = choose('k', N)
        if k == i or k == j:
            return skip()
        base = (i, j, k)
        variants = [base, (j, k, i), (k, i, j), (k, j, i)]
    nv = choose('nvariants', len(variants)) + 1          # how many orderings of the same atom set are reported
    matches = variants[:nv]
    extra = bool(B('extra'))                              # plus a match on a different atom set
    if extra:
        x = [1, 9, 17, 6][choose('x', 4)]       # one per hash-slot class of the 8-slot table, plus another slot
        if x in base:
            return skip()
        matches = matches + [tuple([x] + list(base[1:]))]
    want = 1 + (1 if extra else 0)
    kind = ['other', 'smiles', 'smarts'][choose('kind', 3)]
    mk = {'other': [], 'smiles': [], 'smarts': []}
    mk[kind] = list(matches)
    if PARAM.get('dupname') and bool(B('second_pattern')):     # the second pattern with the same descriptor name also matches
        y = [2, 10][choose('y', 2)]
        if y in base:
            return skip()
        mk[kind + '2'] = [tuple([y] + list(base[1:])), tuple(list(base[1:]) + [y])][:choose('nsecond', 2) + 1]
        want += 1
    natoms = N
    mol, clean = descr_mols(mk, natoms)
    scheme = _descr_scheme(mk)
    try:
        # every input is a realised (concrete) value here: the call runs outside the tracer so that the real CPython
        # set/dict iteration order is what executes (CrossHair substitutes its own insertion-ordered set model)
        with NoTracing():
            got = dict(scheme._AssignDescriptor(mol, clean))
    except Exception as e:
        return finish(False, 'raised:' + type(e).__name__)
    name = {'other': 'D_ring', 'smiles': 'D_smiles', 'smarts': 'D_half'}[kind]
    coef = 0.5 if kind == 'smarts' else 1
    ok = got == {name: want * coef}
    return finish(ok, 'descr: count is not the number of distinct matched atom sets', matches, sorted(got.items()))


def h_benson_ring(d: bool):
    """
    post: _[0]
    """
    begin()
    types = [rf.BondType.SINGLE, rf.BondType.DOUBLE, rf.BondType.TRIPLE, rf.BondType.AROMATIC]
    if PARAM.get('mode') == 'elements':
        # elements symbolic per position, bonds in one of the two alternating Kekule patterns
        elems = [[6, 8, 7][choose('e%d' % k, 3)] for k in range(6)]
        ph = choose('phase', 2)
        bts = [types[(k + ph) % 2] for k in range(6)]
    else:
        # all carbon, bond type symbolic per position
        elems = [6] * 6
        bts = [types[choose('b%d' % k, 4)] for k in range(6)]
    start = choose('start', 6)                                  # where the ring perception starts its atom list
    atoms = [rf.FAtom(z) for z in elems] + [rf.FAtom(6)]       # atom 6: a substituent outside the ring
    bonds = [rf.FBond(k, (k + 1) % 6, bts[k]) for k in range(6)] + [rf.FBond(0, 6, rf.BondType.DOUBLE)]
    ring = tuple((start + k) % 6 for k in range(6))
    mol = rf.FMol(atoms, bonds, rings=[ring])
    err = None
    with NoTracing():           # concrete inputs (see run_scheme)
        saved = SC.Chem
        SC.Chem = rf.FakeChem()
        try:
            SC._aromatization_Benson(mol)
        except Exception as e:
            err = type(e).__name__
        finally:
            SC.Chem = saved
    if err:
        return finish(False, 'raised:' + err)
    S, D = rf.BondType.SINGLE, rf.BondType.DOUBLE
    alt = all(bts[k] in (S, D) for k in range(6)) and all(bts[k] != bts[(k + 1) % 6] for k in range(6))
    should = all(z == 6 for z in elems) and alt
    ring_bonds = [mol.GetBondBetweenAtoms(k, (k + 1) % 6) for k in range(6)]
    if should:
        ok = all(b.GetBondType() == rf.BondType.AROMATIC and b.aromatic for b in ring_bonds) and \
            all(mol.atoms[k].aromatic for k in range(6))
    else:
        ok = all(ring_bonds[k].GetBondType() == bts[k] for k in range(6)) and not any(mol.atoms[k].aromatic for k in range(6))
    outside = mol.GetBondBetweenAtoms(0, 6).GetBondType() == D and not mol.atoms[6].aromatic
    return finish(ok and outside, 'benson: ring aromatised iff all-carbon and strictly alternating single/double; nothing '
                  'outside the ring changes', elems, [str(b) for b in bts], start)


def signature(ob, param, ret):
    st = str(ret[1]) if len(ret) > 1 else ''
    return '%s:%s' % (ob.split('_')[0], st.split(':')[0] if st.startswith(('descr', 'benson')) else st)


def obligations(tier, seed):
    q = tier == 'quick'
    to = 200 if q else 3000
    obs = []
    n, P = (3, 2) if q else (3, 3)
    # split over the match flags of atom 0 (2^P obligations)
    for bits in range(2 ** P):
        fix = dict(('m_p%d_a0' % p, bool(bits >> p & 1)) for p in range(P))
        obs.append(dict(name='decompose_n%d_P%d_f%d' % (n, P, bits), func='h_decompose', param=dict(n=n, P=P, fix=fix), timeout=to))
    for i in range(0, 24, 1 if not q else 3):
        obs.append(dict(name='descr_i%d' % i, func='h_descr', param=dict(N=24, size=2, fix=dict(i=i)), timeout=to))
    obs.append(dict(name='descr_molquery', func='h_descr_molquery', param={}, timeout=to))
    for (i, j) in ((0, 8), (3, 5)):
        # two patterns feeding one descriptor name (the second one matching or not): counts add up
        obs.append(dict(name='descr_dupname_%d_%d' % (i, j), func='h_descr', param=dict(N=24, size=2, dupname=True, fix=dict(i=i, j=j)), timeout=to))
    if not q:
        for i in range(0, 24, 4):
            for j in range(1, 24, 6):
                obs.append(dict(name='descr3_i%d_j%d' % (i, j), func='h_descr', param=dict(N=24, size=3, fix=dict(i=i, j=j)), timeout=to))
    if not q:
        for bits in range(16):
            fix = dict(m_p0_a0=bool(bits & 1), m_p1_a0=bool(bits & 2), m_p0_a1=bool(bits & 4), m_p1_a1=bool(bits & 8), use_remap=True)
            obs.append(dict(name='decompose_n4_P2_f%d' % bits, func='h_decompose', param=dict(n=4, P=2, fix=fix), timeout=to))
    for s in range(6):
        if q and s % 3:
            continue            # quick: ring perception starting at atoms 0 and 3, thorough: every start
        obs.append(dict(name='benson_elements_s%d' % s, func='h_benson_ring', param=dict(mode='elements', fix=dict(start=s)), timeout=to))
        for b0 in range(4):
            if q and b0 > 1:
                continue        # quick: first ring bond single or double (the only ones that can aromatise)
            obs.append(dict(name='benson_bonds_s%d_b%d' % (s, b0), func='h_benson_ring',
                            param=dict(mode='bonds', fix=dict(start=s, b0=b0)), timeout=to))
    return obs


def validate(tier, seed):
    """Fake contract vs RDKit for what Scheme.py reads: bond type names, AddHs'ed atoms/neighbours, GetSymmSSSR ring
    tuples; and the real scheme on real molecules agrees with the reference canonical naming (_canon)."""
    import warnings
    warnings.simplefilter('ignore')
    from rdkit import Chem
    from pgradd.GroupAdd.Group import Group
    bad = []
    for c, per in (('C', ['H', 'H', 'C', 'H']), ('C[d]', ['C[d]', 'H', 'H']), ('O', []), ('C', ['CO', 'C', 'C', 'CO'])):
        if Group(None, c, per).name != _canon(c, per):
            bad.append((c, per))
    mol = Chem.AddHs(Chem.MolFromSmiles('C1=CC=CC=C1'))
    Chem.Kekulize(mol)
    rings = [tuple(r) for r in Chem.GetSymmSSSR(mol)]
    ok_ring = len(rings) == 1 and len(rings[0]) == 6
    bt = sorted(set(str(b.GetBondType()) for b in mol.GetBonds()))
    return [dict(name='reference canonical name vs Group(); ring tuples and bond-type names of RDKit as the fakes model them',
                 ok=not bad and ok_ring and bt == ['DOUBLE', 'SINGLE'], n=6, detail='bad=%r rings=%r bondtypes=%r' % (bad, rings, bt))]


def h_descr_molquery(d: bool):
    """
    post: _[0]
    """
    begin()
    # Scheme + the real MolQuery filter together: the embeddings RDKit reports for a symmetric pattern are the permutations
    # of one atom set; the RING constraints (here: on the second pattern atom) decide which permutation survives.  The
    # descriptor counts once iff SOME permutation satisfies the constraints - whichever order RDKit lists them in.
    import pgradd.RDkitWrapper.MolQuery as MQ
    from pgradd.Error import MolQueryError
    a, b, c = 0, 1, 2
    perms = [(a, b, c), (a, c, b), (b, a, c), (b, c, a), (c, a, b), (c, b, a)]
    nperm = choose('nperm', 3)                   # RDKit lists 2, 4 or all 6 permutations ...
    start = choose('start', 6)                   # ... in some order
    cands = [perms[(start + k) % 6] for k in range([2, 4, 6][nperm])]
    passes = [bool(B('second_atom_ok_%d' % k)) for k in range(3)]     # the constraint on pattern atom #2, per molecule atom

    class Cons(MQ.AtomConstraint):
        def __call__(self, atom):
            if not passes[atom.idx]:
                raise MolQueryError('no')
    with NoTracing():
        saved = (MQ.Chem, SC.Chem)
        MQ.Chem = SC.Chem = rf.FakeChem()
        try:
            q = MQ.MolQuery()
            q.AppendAtomConstraint(Cons(), 1)
            mol = rf.FMol([rf.FAtom(6) for _ in range(3)], [], matcher=lambda m, qq, kw: list(cands))
            scheme = SC.GroupAdditivityScheme(patterns=[], pretreatment_rules=[], remaps={},
                                              other_descriptors=[{'name': 'D', 'connectivity': q}],
                                              smiles_based_descriptors=[], smarts_based_descriptors=[], include=[])
            try:
                got = dict(scheme._AssignDescriptor(mol, mol))
                err = None
            except Exception as e:
                got, err = None, type(e).__name__
        finally:
            MQ.Chem, SC.Chem = saved
    if err:
        return finish(False, 'raised:' + err)
    want = {'D': 1} if any(passes[p[1]] for p in cands) else {}
    return finish(got == want, 'descr_molquery: a correction descriptor is lost or double counted depending on the order of the '
                  'reported embeddings', cands, passes, got)
