"""C12 - loading a library does not depend on the units its data use (DESIGN 4/C12).

Input = the tree libyaml would have produced for one group's `thermochem` entry, with symbolic real values,
presented (a) as bare numbers + a default-units block, (b) as explicit quantities in any compatible unit,
(c) in non-dimensional form.  Every presentation must construct the same plain-number correlation.
"""
from vf.symkit import PARAM, REPLAY, R, B, all_close, begin, choose, finish, skip
from vf.stubs import thermo as th

import pgradd.Units.qty as Q
import pgradd.yaml_io as yio
from pgradd.yaml_io.common import InputDataError
from pgradd.Units import eval_qty
import pgradd.ThermoChem  # noqa: F401  (registers ThermochemGroup)
import pgradd.GroupAdd.Library as _L

Q.print = lambda *a, **k: None
if REPLAY is None:
    Q.GenericQuantity.__str__ = lambda self: '<quantity>'

PROPERTY = 'C12'
FUNCTIONS_ENCODED = [
    'pgradd.yaml_io.builtins:qty_loader.__call__', 'pgradd.Units.helpers:with_units',
    'pgradd.yaml_io.schema:ObjectLoader.__call__',
    'pgradd.ThermoChem.incomplete:ThermochemIncomplete.yaml_construct',
    'pgradd.ThermoChem.incomplete:ThermochemIncomplete.__init__',
]
RGAS = 8.314472                 # the repo's GAS_CONSTANT in J/(mol K) (Consts.py), SI
E_UNITS = [('J/mol', 1.0), ('kJ/mol', 1e3), ('cal/mol', 4.184), ('kcal/mol', 4184.0),
           ('eV/molecule', 1.602176487e-19 * 6.02214179e23)]
S_UNITS = [('J/mol/K', 1.0), ('kJ/(mol K)', 1e3), ('cal/mol/K', 4.184), ('kcal/mol/K', 4184.0)]
T_UNITS = [('K', 1.0), ('mK', 1e-3), ('kK', 1e3)]
CP_T = [300.0, 500.0]
BOUNDS = {
    'quick': 'one group entry: H_ref, S_ref (each present/absent), <= 2 Cp points, T_ref and range, all values symbolic reals '
             '(zero and negatives included); presentation symbolic choice among default-unit blocks (5 energy x 4 entropy '
             'units), explicit quantities (same unit lists, 3 temperature units) and non-dimensional keys',
    'thorough': 'same with every (energy, entropy) unit pair as its own obligation',
}
STUBS = ['np.array in incomplete.py -> list (NpShim)', 'warnings.warn recorder', 'PolySpline for FITPACK when Cp data is present',
         'print()/__str__ of quantities silenced']
ASSUMPTIONS = ['float := real', 'the tree handed to the loaders is what libyaml produces (numeral parsing outside)',
               'explicit-unit values are number x parsed unit (the units parser itself is C10)',
               'Cp table temperatures concrete (dictionary keys), Cp values symbolic']
OUTSIDE = ['libyaml scalar resolution', 'decimal -> float conversion']
REALISED = ['unit choices (solver-enumerated)']

_loader = yio.make_object_loader(yio.parse(
    '\n'.join(('%r:\n    type: %r\n    optional: true' % (str(name), str(_L.GroupLibrary._property_set_group_yaml_types[name])))
              for name in _L.GroupLibrary._property_set_group_yaml_types)))


def _install():
    m = th.install()
    if REPLAY is None:
        import numpy as real_np

        class _NP(object):
            def __getattr__(self, k):
                return getattr(real_np, k)

            @staticmethod
            def array(x, *a, **k):
                return list(x)
        m['inc'].np = _NP()
    th.patch_spline(None, record_only=True)
    return m


def _is_plain(x):
    return not isinstance(x, Q.GenericQuantity)


def h_load(d: bool):
    """
    post: _[0]
    """
    begin()
    _install()
    mode = PARAM.get('mode')
    if mode is None:
        mode = ['default', 'explicit', 'nd'][choose('mode', 3)]
    hasH, hasS, ncp = B('hasH'), B('hasS'), choose('ncp', 3)
    h, s = R('h'), R('s')               # SI values: J/mol, J/(mol K)
    cps = [R('cp%d' % i) for i in range(ncp)]
    tref, lo, hi = R('tref'), R('lo'), R('hi')
    if not (0 < lo <= tref <= hi and lo <= CP_T[0] and CP_T[-1] <= hi):
        return skip()
    ie = PARAM['ie'] if 'ie' in PARAM else choose('ie', len(E_UNITS))
    is_ = PARAM['is'] if 'is' in PARAM else choose('is', len(S_UNITS))
    (eu, ef), (su, sf) = E_UNITS[ie], S_UNITS[is_]
    tree, units = {}, {}
    if mode == 'default':
        units = {'molar enthalpy': eu, 'molar entropy': su, 'molar heat capacity': su, 'temperature': 'K'}
        tree['T_ref'] = tref
        tree['range'] = [lo, hi]
        if hasH:
            tree['H_ref'] = h / ef
        if hasS:
            tree['S_ref'] = s / sf
        if ncp:
            tree['Cp_data'] = [[CP_T[i], cps[i] / sf] for i in range(ncp)]
    elif mode == 'explicit':
        it = choose('it', len(T_UNITS))
        tu, tf = T_UNITS[it]
        tree['T_ref'] = (tref / tf) * eval_qty(tu)
        tree['range'] = [(lo / tf) * eval_qty(tu), (hi / tf) * eval_qty(tu)]
        if hasH:
            tree['H_ref'] = (h / ef) * eval_qty(eu)
        if hasS:
            tree['S_ref'] = (s / sf) * eval_qty(su)
        if ncp:
            tree['Cp_data'] = [[(CP_T[i] / tf) * eval_qty(tu), (cps[i] / sf) * eval_qty(su)] for i in range(ncp)]
    else:
        tree['T_ref'] = tref * eval_qty('K')
        tree['range'] = [lo * eval_qty('K'), hi * eval_qty('K')]
        if hasH:
            tree['ND_H_ref'] = h / (RGAS * tref)
        if hasS:
            tree['ND_S_ref'] = s / RGAS
        if ncp:
            tree['ND_Cp_data'] = [[CP_T[i] * eval_qty('K'), cps[i] / RGAS] for i in range(ncp)]
    context = {'units': units}
    try:
        ps = yio.load({'thermochem': tree}, context, loader=_loader)
        c = ps['thermochem']
    except Exception as e:
        return finish(False, 'raised:%s in mode %s' % (type(e).__name__, mode))
    pairs, labels = [], []
    if not (_is_plain(c.T_ref) and _is_plain(c.range[0]) and _is_plain(c.range[1])):
        return finish(False, 'T_ref/range are not plain numbers (mode %s)' % mode)
    pairs += [(c.T_ref, tref), (c.range[0], lo), (c.range[1], hi)]
    labels += ['T_ref', 'range lo', 'range hi']
    for has, got, want, nm in ((hasH, c.ND_H_ref, h / (RGAS * tref), 'ND_H_ref'), (hasS, c.ND_S_ref, s / RGAS, 'ND_S_ref')):
        if not has:
            if got is not None:
                return finish(False, '%s appeared from nowhere' % nm)
            continue
        if got is None:
            return finish(False, '%s lost (mode %s)' % (nm, mode))
        if not _is_plain(got):
            return finish(False, '%s is a quantity with units, not a plain number (mode %s)' % (nm, mode))
        pairs.append((got, want))
        labels.append(nm)
    if sorted(c.ND_Cp_data) != CP_T[:ncp]:
        return finish(False, 'Cp table temperatures differ (mode %s)' % mode)
    for i in range(ncp):
        v = c.ND_Cp_data[CP_T[i]]
        if not _is_plain(v):
            return finish(False, 'Cp value is a quantity (mode %s)' % mode)
        pairs.append((v, cps[i] / RGAS))
        labels.append('Cp(%g)' % CP_T[i])
    ok, lab = all_close(pairs, labels)
    return finish(ok, 'ok' if ok else 'load_units: %s differs in mode %s (%s, %s)' % (lab, mode, eu, su))


def h_no_units(d: bool):
    """
    post: _[0]
    """
    begin()
    _install()
    which = choose('which', 3)
    h = R('v')
    tree = {'T_ref': 298.15 * eval_qty('K')}
    key = ['H_ref', 'S_ref', 'Cp_data'][which]
    tree[key] = h if which < 2 else [[300.0 * eval_qty('K'), h]]
    have = B('other_units_present')
    units = {'temperature': 'K'}
    if have:      # units for the OTHER kinds only
        units.update({'molar enthalpy': 'kJ/mol', 'molar entropy': 'J/mol/K', 'molar heat capacity': 'J/mol/K'})
        del units[['molar enthalpy', 'molar entropy', 'molar heat capacity'][which]]
    try:
        yio.load({'thermochem': tree}, {'units': units}, loader=_loader)
        return finish(False, 'dimensional value without any unit accepted (%s)' % key)
    except InputDataError:
        return finish(True, 'rejected')
    except Exception as e:
        return finish(False, 'raised:%s instead of the input-data error' % type(e).__name__)


def h_load_twice(d: bool):
    """
    post: _[0]
    """
    begin()
    # two files in one process whose units blocks declare DIFFERENT defaults: the second must be read with its own units
    _install()
    i1, i2 = choose('ie1', len(E_UNITS)), choose('ie2', len(E_UNITS))
    j1, j2 = choose('is1', len(S_UNITS)), choose('is2', len(S_UNITS))
    h, s_ = R('h'), R('s')
    got = []
    try:
        for ie, is_ in ((i1, j1), (i2, j2)):
            (eu, ef), (su, sf) = E_UNITS[ie], S_UNITS[is_]
            tree = {'T_ref': 298.15, 'H_ref': h / ef, 'S_ref': s_ / sf}
            units = {'molar enthalpy': eu, 'molar entropy': su, 'molar heat capacity': su, 'temperature': 'K'}
            c = yio.load({'thermochem': tree}, {'units': units}, loader=_loader)['thermochem']
            got.append(c)
    except Exception as e:
        return finish(False, 'raised:' + type(e).__name__)
    pairs, labels = [], []
    for k, c in enumerate(got):
        if not (_is_plain(c.ND_H_ref) and _is_plain(c.ND_S_ref)):
            return finish(False, 'load_units: quantity instead of plain number')
        pairs += [(c.ND_H_ref, h / (RGAS * 298.15)), (c.ND_S_ref, s_ / RGAS)]
        labels += ['H of file %d' % (k + 1), 'S of file %d' % (k + 1)]
    ok, lab = all_close(pairs, labels)
    return finish(ok, 'ok' if ok else 'load_twice: %s depends on the units of a file loaded earlier' % lab)


def signature(ob, param, ret):
    st = str(ret[1]) if len(ret) > 1 else ''
    if 'zero' in st or 'quantity with units' in st:
        return 'load_units:zero or quantity:%s' % st
    return '%s:%s' % (ob.split('_')[0], st)


def obligations(tier, seed):
    q = tier == 'quick'
    to = 280 if q else 2400
    obs = []
    for mode in ('default', 'explicit', 'nd'):
        for ie in range(len(E_UNITS)):
            if q:
                obs.append(dict(name='load_%s_e%d' % (mode, ie), func='h_load', param=dict(mode=mode, ie=ie), timeout=to))
            else:
                for is_ in range(len(S_UNITS)):
                    obs.append(dict(name='load_%s_e%d_s%d' % (mode, ie, is_), func='h_load',
                                    param={'mode': mode, 'ie': ie, 'is': is_}, timeout=to))
            if mode == 'nd':
                break
    obs.append(dict(name='no_units', func='h_no_units', param={}, timeout=to))
    for ie1 in range(len(E_UNITS)):
        obs.append(dict(name='load_twice_e%d' % ie1, func='h_load_twice', param=dict(fix=dict(ie1=ie1)), timeout=to))
    return obs


def validate(tier, seed):
    """Unit factor tables vs the repo's own parser, and the real (unstubbed) loader on one concrete entry."""
    bad = []
    for u, f in E_UNITS + S_UNITS + T_UNITS:
        v = eval_qty(u).value
        if abs(v - f) > 1e-9 * abs(f):
            bad.append((u, v, f))
    from pgradd.Consts import GAS_CONSTANT
    if abs(GAS_CONSTANT.value - RGAS) > 1e-12:
        bad.append(('R', GAS_CONSTANT.value))
    return [dict(name='unit factor tables vs eval_qty; gas constant', ok=not bad, n=len(E_UNITS + S_UNITS + T_UNITS) + 1,
                 detail='mismatch: %r' % bad)]
