"""C19 - group identity is the centre plus the multiset of peripherals (DESIGN 4/C19).

Names come from a concrete alphabet (taken from the shipped libraries at run time); the symbolic variables are the
multiplicities, the order in which peripherals are given, and the run-length spelling.  CrossHair realises these
small integers by branching, so this is solver-enumerated exhaustive exploration of the bounded space (stated in
the evidence), not a continuum argument.
"""
import itertools
import re

from vf.symkit import PARAM, REPLAY, begin, choose, finish, skip

from pgradd.GroupAdd.Group import Group, Descriptor
from pgradd.GroupAdd.Library import GroupLibrary
from pgradd.Error import GroupSyntaxError

PROPERTY = 'C19'
FUNCTIONS_ENCODED = [
    'pgradd.GroupAdd.Group:Group.__init__', 'pgradd.GroupAdd.Group:Group._canonical_name',
    'pgradd.GroupAdd.Group:Group.parse', 'pgradd.GroupAdd.Group:Descriptor.__eq__',
    'pgradd.GroupAdd.Group:Descriptor.__hash__', 'pgradd.GroupAdd.Library:GroupLibrary.__getitem__',
    'pgradd.GroupAdd.Library:GroupLibrary.__contains__',
]
BOUNDS = {
    'quick': '2 centre names, 3 peripheral names (one bracketed, one multi-letter) with multiplicities 0..2 on both sides, '
             'any rotation/reversal of the supply order; every run-length spelling (rotations/reversal of the chunk order) of multisets with multiplicities 0..2',
    'thorough': 'multiplicities 0..3 on both sides over 3 names and 0..2 over 4 names; spellings for multiplicities 0..3',
}
STUBS = []
ASSUMPTIONS = ['names are drawn from a concrete alphabet (character-level universality is out of reach: hashing/sorting '
               'symbolic strings makes CrossHair realise characters)',
               'peripheral names contain no parentheses and are not all digits (the documented syntax)']
OUTSIDE = ['arbitrary Unicode names', 'more than 4 distinct peripheral names']
REALISED = ['multiplicities, supply order, run-length split and interleaving (all solver-enumerated choices)']


def alphabet(n):
    """peripheral names found in the shipped BensonGA library (concrete, read at import)"""
    import os
    import yaml
    names = set()
    p = os.path.join(__import__('vf.symkit').symkit.REPO, 'pgradd/data/BensonGA/gas_benson')
    for fn in sorted(os.listdir(p)):
        if fn.endswith('.yaml'):
            try:
                data = yaml.safe_load(open(os.path.join(p, fn)))
            except Exception:
                continue
            for g in (data or {}).get('groups', {}) or {}:
                for part in re.split('[()]', g)[1:]:
                    if part and not part.isdigit():
                        names.add(part)
    pref = [x for x in ['C[d]', 'CO', 'H', 'C', 'O', 'C[B]', 'N[A]'] if x in names]
    rest = sorted(names - set(pref))
    return (pref + rest)[:n]


CENTRES = ['C', 'C[d]']
_ALPHA = alphabet(4)


def _psgs(mult, order_idx):
    """list of peripherals for a multiplicity vector in one of the supply orders (rotations and reversal)"""
    base = []
    for name, k in zip(_ALPHA, mult):
        base += [name] * k
    if not base:
        return []
    r = order_idx % len(base)
    out = base[r:] + base[:r]
    if (order_idx // len(base)) % 2:
        out = list(reversed(out))
    return out


def h_eq_iff(d: bool):
    """
    post: _[0]
    """
    begin()
    na, K = PARAM.get('names', 3), PARAM.get('K', 2)
    c1 = CENTRES[choose('c1', 2)]
    c2 = CENTRES[choose('c2', 2)]
    m1 = [choose('a%d' % i, K + 1) for i in range(na)]
    m2 = [choose('b%d' % i, K + 1) for i in range(na)]
    o2 = choose('order', 2 * max(1, sum(m2)))
    g1 = Group(None, c1, _psgs(m1, 0))
    g2 = Group(None, c2, _psgs(m2, o2))
    same = (c1 == c2 and m1 == m2)
    try:
        eq, ne = (g1 == g2), (g1 != g2)
        if eq != same or ne == eq:
            return finish(False, 'equality is not "same centre and same multiset"', c1, m1, c2, m2, o2)
        if same and hash(g1) != hash(g2):
            return finish(False, 'equal groups hash differently')
        lib = GroupLibrary(None, {g1: {'p': 1}})
        if (g2 in lib) != same or (lib[g2] == {'p': 1}) != same:
            return finish(False, 'library lookup disagrees with identity', c1, m1, c2, m2, o2)
        # interchangeable with the canonical name as a plain string
        s1 = str(g1)
        if not (g1 == s1 and s1 == g1 and not (g1 != s1) and not (s1 != g1) and (s1 in lib) and lib[s1] == {'p': 1}):
            return finish(False, 'group is not interchangeable with its canonical name')
        if (g2 == s1) != same:
            return finish(False, 'comparison with a canonical string disagrees with identity')
        # the canonical name parses back to the same group
        back = Group.parse(None, s1)
        if not (back == g1 and back.name == g1.name and back.csg == g1.csg and sorted(back.psgs) == sorted(g1.psgs)):
            return finish(False, 'canonical name does not parse back to the same group', s1)
    except Exception as e:
        return finish(False, 'raised:' + type(e).__name__)
    return finish(True, 'ok')


def _compositions(k):
    """all ways of writing k as an ordered sum of positive runs"""
    if k == 0:
        return [[]]
    out = []
    for first in range(1, k + 1):
        for rest in _compositions(k - first):
            out.append([first] + rest)
    return out


def h_spellings(d: bool):
    """
    post: _[0]
    """
    begin()
    na, K = PARAM.get('names', 3), PARAM.get('K', 3)
    c = CENTRES[choose('c', 2)]
    mult = [choose('m%d' % i, K + 1) for i in range(na)]
    chunks = []
    for i in range(na):
        comps = _compositions(mult[i])
        runs = comps[choose('split%d' % i, len(comps))]
        chunks += [(_ALPHA[i], r) for r in runs]
    # interleaving: a rotation of the chunk list, optionally reversed
    if chunks:
        o = choose('interleave', 2 * len(chunks))
        r = o % len(chunks)
        chunks = chunks[r:] + chunks[:r]
        if o // len(chunks):
            chunks = list(reversed(chunks))
    text = c
    digit1 = choose('digit1', 2) == 1           # "(X)" and "(X)1" both mean one X
    for name, run in chunks:
        text += '(' + name + ')' + (str(run) if (run > 1 or digit1) else '')
    try:
        g = Group.parse(None, text)
        ref = Group(None, c, _psgs(mult, 0))
        if not (g == ref and hash(g) == hash(ref) and g.name == ref.name):
            return finish(False, 'a spelling of the same multiset parses to a different group', text, ref.name)
    except Exception as e:
        return finish(False, 'raised:' + type(e).__name__, text)
    return finish(True, text)


def h_malformed(d: bool):
    """
    post: _[0]
    """
    begin()
    # a repeat count with no name before it is malformed and must be rejected with the group syntax error
    c = CENTRES[choose('c', 2)]
    k = choose('k', 9) + 1
    tail = [_ALPHA[choose('t', len(_ALPHA))]] if choose('hastail', 2) else []
    text = c + '(%d)' % k + ''.join('(%s)' % t for t in tail)
    try:
        Group.parse(None, text)
        return finish(False, 'all-digit peripheral accepted', text)
    except GroupSyntaxError:
        return finish(True, text)
    except Exception as e:
        return finish(False, 'raised:' + type(e).__name__, text)


def signature(ob, param, ret):
    return '%s:%s' % (ob.split('_')[0], ret[1] if len(ret) > 1 else '')


def obligations(tier, seed):
    q = tier == 'quick'
    to = 280 if q else 3000
    obs = []
    K = 2 if q else 3
    # split over the first side's multiplicities (fixed per obligation), the rest symbolic
    for a in itertools.product(range(K + 1), repeat=3):
        fix = dict(('a%d' % i, a[i]) for i in range(3))
        obs.append(dict(name='eq_iff_a%d%d%d' % a, func='h_eq_iff', param=dict(names=3, K=K, fix=fix), timeout=to))
    if not q:
        for a in itertools.product(range(3), repeat=4):
            fix = dict(('a%d' % i, a[i]) for i in range(4))
            obs.append(dict(name='eq_iff4_a%d%d%d%d' % a, func='h_eq_iff', param=dict(names=4, K=2, fix=fix), timeout=to))
    KS = 2 if q else 3
    for mm in itertools.product(range(KS + 1), repeat=3):
        obs.append(dict(name='spellings_m%d%d%d' % mm, func='h_spellings',
                        param=dict(names=3, K=KS, fix=dict(m0=mm[0], m1=mm[1], m2=mm[2])), timeout=to))
    obs.append(dict(name='malformed', func='h_malformed', param={}, timeout=to))
    return obs


def validate(tier, seed):
    ok = len(_ALPHA) >= 4 and any('[' in x for x in _ALPHA) and any(len(x) > 1 and '[' not in x for x in _ALPHA)
    return [dict(name='alphabet from the shipped BensonGA library (bracketed and multi-letter names present)', ok=ok, n=len(_ALPHA),
                 detail=repr(_ALPHA))]
