"""C06 - nothing is returned outside the valid range unsignalled (DESIGN 4/C06)."""
import warnings

from vf.symkit import PARAM, REPLAY, R, B, begin, finish, skip
from vf.stubs import thermo as _th  # noqa: F401  (imports pgradd outside tracing)
from vf.stubs import lindict as _ld  # noqa: F401

PROPERTY = 'C06'
FUNCTIONS_ENCODED = [
    'pgradd.ThermoChem.base:ThermochemBase.check_range',
    'pgradd.ThermoChem.base:ThermochemBase.__init__',
    'pgradd.ThermoChem.raw_data:ThermochemRawData.__init__',
    'pgradd.ThermoChem.raw_data:ThermochemRawData.get_CpoR',
    'pgradd.ThermoChem.raw_data:ThermochemRawData.get_HoRT',
    'pgradd.ThermoChem.raw_data:ThermochemRawData.get_SoR',
    'pgradd.ThermoChem.incomplete:ThermochemIncomplete.get_CpoR',
    'pgradd.ThermoChem.incomplete:ThermochemIncomplete.get_HoRT',
    'pgradd.ThermoChem.incomplete:ThermochemIncomplete.get_SoR',
    'pgradd.ThermoChem.group_data:ThermochemGroupAdditive.__init__',
    'pgradd.ThermoChem.group_data:ThermochemGroupAdditive.get_CpoR',
    'pgradd.ThermoChem.group_data:ThermochemGroupAdditive.get_HoRT',
    'pgradd.ThermoChem.group_data:ThermochemGroupAdditive.get_SoR',
]
BOUNDS = {
    'quick': 'tables of 1..2 points (ctor: 1..3) (arbitrary supply order, symbolic reals), symbolic range/T_ref/T over all reals '
             '(lo>0 only where division by T is asserted absent); estimates of <= 2 constituents',
    'thorough': 'tables of 1..4 points; estimates of <= 3 constituents',
}
STUBS = ['warnings.warn in incomplete.py replaced by a recorder of the warning category', 'PolySpline/SplineFactory for InterpolatedUnivariateSpline', 'NpShim (np.any/isscalar/log/ones_like on scalars)',
         'LN uninterpreted + QuadStub for scipy.integrate.quad']
ASSUMPTIONS = [
    'float := real number (z3 Real); NaN/inf/rounding outside the claim',
    'FITPACK interpolant of N<=4 points with k=N-1 is the interpolating polynomial (validated concretely each run)',
    'a correlation without Cp data has its T_ref inside its declared range (else the reference value at T_ref is silent)',
    'valid range has lo > 0 for the "finite inside" clause (T=0 divides by zero by definition of H/RT)',
]
OUTSIDE = ['array-valued T in the getters (check_range itself is decided for arrays of 2-3 symbolic temperatures)', 'tables with more than 4 points and symbolic values', 'IEEE special values']
REALISED = []


def _raw(npts):
    """Build a ThermochemRawData through the real __init__ on a symbolic table."""
    from vf.stubs import thermo as th
    m = th.install()
    Ts, Cps, sp, coefs = th.sym_table(npts)
    if not th.distinct(Ts):
        return None
    th.patch_spline(sp)
    lo, hi, Tref = R('lo'), R('hi'), R('Tref')
    if not (lo <= hi):
        return None
    return m, Ts, Cps, sp, lo, hi, Tref


def h_oor_raw(d: bool):
    """
    post: _[0]
    """
    begin()
    from pgradd.Error import OutsideCorrelationError
    from vf.stubs import thermo as th
    from vf.stubs.numeric import ln_axioms
    npts = PARAM.get('npts', 2)
    getter = PARAM.get('getter', 'get_CpoR')
    built = _raw(npts)
    if built is None:
        return skip()
    m, Ts, Cps, sp, lo, hi, Tref = built
    tmin, tmax = th.smin(Ts), th.smax(Ts)
    if not (lo <= tmin and tmax <= hi and lo <= Tref <= hi and lo > 0):
        return skip()
    T = R('T')
    obj = m['rd'].ThermochemRawData(R('H'), R('S'), Ts, Cps, Tref, (lo, hi))
    if getter == 'get_SoR' and T > 0:
        ln_axioms([T, Tref, tmin, tmax])
    status = 'value'
    try:
        v = getattr(obj, getter)(T)
        ok_val = (v == v)
    except OutsideCorrelationError:
        status = 'outside'
    except Exception as e:
        status = 'other:' + type(e).__name__
    inside = (lo <= T <= hi)
    ok = (status == 'value') if inside else (status == 'outside')
    return finish(ok, status)


def h_ctor_rejects(d: bool):
    """
    post: _[0]
    """
    begin()
    from vf.stubs import thermo as th
    npts = PARAM.get('npts', 2)
    built = _raw(npts)
    if built is None:
        return skip()
    m, Ts, Cps, sp, lo, hi, Tref = built
    tmin, tmax = th.smin(Ts), th.smax(Ts)
    status = 'built'
    try:
        obj = m['rd'].ThermochemRawData(R('H'), R('S'), Ts, Cps, Tref, (lo, hi))
    except ValueError:
        status = 'ValueError'
    except Exception as e:
        status = 'other:' + type(e).__name__
    must_reject = (tmin < lo) or (tmax > hi) or (Tref < lo) or (Tref > hi)
    ok = (status == 'ValueError') if must_reject else (status == 'built')
    if ok and status == 'built':
        ok = (obj.get_range()[0] == lo and obj.get_range()[1] == hi)
    return finish(ok, status)


def h_oor_incomplete(d: bool):
    """
    post: _[0]
    """
    begin()
    from pgradd.Error import IncompleteDataError, IncompleteDataWarning
    from vf.stubs import thermo as th
    from vf.stubs.numeric import ln_axioms
    npts = PARAM.get('npts', 2)       # 0 = no Cp data
    getter = PARAM.get('getter', 'get_HoRT')
    m = th.install()
    lo, hi, Tref, T = R('lo'), R('hi'), R('Tref'), R('T')
    if not (0 < lo <= Tref <= hi):
        return skip()
    hasH, hasS = B('hasH'), B('hasS')
    H = R('H') if hasH else None
    S = R('S') if hasS else None
    if npts:
        Ts, Cps, sp, coefs = th.sym_table(npts)
        if not th.distinct(Ts):
            return skip()
        tmin, tmax = th.smin(Ts), th.smax(Ts)
        if not (lo <= tmin and tmax <= hi):
            return skip()
        th.patch_spline(sp)
        # dict keyed by symbolic reals would hash them: LinDict keeps == semantics
        from vf.stubs.lindict import LinDict
        data = LinDict(list(zip(Ts, Cps)))
        if getter == 'get_SoR' and T > 0:
            ln_axioms([T, Tref, tmin, tmax])
    else:
        data = {}
    obj = m['inc'].ThermochemIncomplete(H, S, data, Tref, (lo, hi))
    status = 'value'
    del th.WARNED[:]
    try:
        getattr(obj, getter)(T)
    except IncompleteDataError:
        status = 'incomplete'
    except Exception as e:
        status = 'other:' + type(e).__name__
    warned = any(issubclass(c, IncompleteDataWarning) for c in th.WARNED)
    inside = (lo <= T <= hi)
    has = {'get_HoRT': hasH, 'get_SoR': hasS, 'get_CpoR': True}[getter]
    if npts:
        if not has:
            ok = status == 'incomplete'
        elif inside:
            ok = status == 'value' and not warned
        else:
            ok = status == 'incomplete'
    else:
        if getter == 'get_CpoR' or not has:
            ok = status == 'incomplete'
        else:
            # no Cp data: reference value for any T, warning iff T != T_ref; in particular
            # every T outside the range is signalled by the warning (T_ref is inside).
            ok = status == 'value' and (warned == (T != Tref))
    return finish(ok, status, warned)


class _StubCorr(object):
    """A constituent with a symbolic range; getters check the range like ThermochemBase."""

    def __init__(self, base, rng, i):
        self._b = base.ThermochemBase(range=rng)
        self.v = R('v%d' % i)

    def get_range(self):
        return self._b.get_range()

    def get_CpoR(self, T):
        self._b.check_range(T)
        return self.v

    get_HoRT = get_CpoR

    def get_SoR(self, T):
        self._b.check_range(T)
        return self.v


class _Lib(object):
    uq_contents = {}
    name = 'C'

    def __init__(self, corrs):
        self.c = corrs

    def __getitem__(self, g):
        return {'thermochem': self.c[g]}


def h_range_intersection(d: bool):
    """
    post: _[0]
    """
    begin()
    from pgradd.Error import OutsideCorrelationError
    from vf.stubs import thermo as th
    m = th.install()
    n = PARAM.get('n', 3)
    getter = PARAM.get('getter', 'get_CpoR')
    corrs, rngs = [], []
    for i in range(n):
        if B('none%d' % i):
            rng = None
        else:
            a, b = R('lo%d' % i), R('hi%d' % i)
            if not (a <= b):
                return skip()
            rng = (a, b)
        rngs.append(rng)
        corrs.append(_StubCorr(m['base'], rng, i))
    real = [r for r in rngs if r is not None]
    if real:
        elo = th.smax([r[0] for r in real])
        ehi = th.smin([r[1] for r in real])
        if not (elo <= ehi):
            return skip()       # empty intersection: constructor asserts; outside the claim
    groups = dict((i, R('n%d' % i)) for i in range(n))
    est = m['gd'].ThermochemGroupAdditive(_Lib(corrs), groups)
    got = est.get_range()
    if real:
        ok = got is not None and got[0] == elo and got[1] == ehi
    else:
        ok = got is None
    T = R('T')
    status = 'value'
    try:
        getattr(est, getter)(T)
    except OutsideCorrelationError:
        status = 'outside'
    except Exception as e:
        status = 'other:' + type(e).__name__
    if real:
        inside = elo <= T <= ehi
        ok = ok and ((status == 'value') if inside else (status == 'outside'))
    else:
        ok = ok and status == 'value'
    return finish(ok, status)


class _SymArray(object):
    """a 1-D array of (symbolic) temperatures: what check_range needs from numpy (elementwise <, >; any/min/max in NpShim)"""

    def __init__(self, xs):
        self.xs = list(xs)

    def __lt__(self, o):
        return _SymArray([x < o for x in self.xs])

    def __gt__(self, o):
        return _SymArray([x > o for x in self.xs])

    def __le__(self, o):
        return _SymArray([x <= o for x in self.xs])

    def __ge__(self, o):
        return _SymArray([x >= o for x in self.xs])

    def __iter__(self):
        return iter(self.xs)

    def __len__(self):
        return len(self.xs)


def h_oor_array(d: bool):
    """
    post: _[0]
    """
    begin()
    from pgradd.Error import OutsideCorrelationError
    from vf.stubs import thermo as th
    m = th.install()
    n = PARAM.get('n', 2)
    lo, hi = R('lo'), R('hi')
    if not (lo <= hi):
        return skip()
    Ts = [R('T%d' % i) for i in range(n)]
    base = m['base'].ThermochemBase(range=(lo, hi))
    if REPLAY is None:
        arr = _SymArray(Ts)
    else:
        import numpy
        arr = numpy.array(Ts)
    status = 'accepted'
    try:
        base.check_range(arr)
    except OutsideCorrelationError:
        status = 'outside'
    except Exception as e:
        status = 'other:' + type(e).__name__
    want_outside = False
    for t in Ts:
        if t < lo or t > hi:
            want_outside = True
    return finish((status == 'outside') == want_outside and not status.startswith('other'),
                  'array of temperatures: %s although %s' % (status, 'one lies outside' if want_outside else 'all inside'))


def obligations(tier, seed):
    q = tier == 'quick'
    to = 200 if q else 1500
    obs = []
    for npts in (1, 2) if q else (1, 2, 3, 4):
        for g in ('get_CpoR', 'get_HoRT', 'get_SoR'):
            obs.append(dict(name='oor_raw_n%d_%s' % (npts, g), func='h_oor_raw',
                            param=dict(npts=npts, getter=g), timeout=to))
    for npts in (1, 2, 3) if q else (1, 2, 3, 4):
        obs.append(dict(name='ctor_rejects_n%d' % npts, func='h_ctor_rejects', param=dict(npts=npts), timeout=to))
    for npts in (0, 1, 2) if q else (0, 1, 2, 3):
        for g in ('get_CpoR', 'get_HoRT', 'get_SoR'):
            if q and npts == 2 and g == 'get_SoR':
                continue        # closes in ~6 min: thorough tier
            obs.append(dict(name='oor_incomplete_n%d_%s' % (npts, g), func='h_oor_incomplete',
                            param=dict(npts=npts, getter=g), timeout=to))
    for n in (2,) if q else (2, 3):
        obs.append(dict(name='oor_array_n%d' % n, func='h_oor_array', param=dict(n=n), timeout=to))
    for n in (1, 2) if q else (1, 2, 3):
        for g in ('get_CpoR', 'get_HoRT', 'get_SoR'):
            obs.append(dict(name='range_intersection_n%d_%s' % (n, g), func='h_range_intersection',
                            param=dict(n=n, getter=g), timeout=to))
    return obs


def validate(tier, seed):
    from vf.stubs.validate_numeric import validate_polyspline
    return [validate_polyspline(seed)]
