"""C18 - a correlation written to YAML reads back as the same correlation (DESIGN 4/C18).

The real yaml_format runs on a correlation with symbolic values; every number it renders becomes a
placeholder token (decimal rendering and YAML numeral parsing are assumed to be the identity on reals), the
REAL libyaml parses the text, placeholders are mapped back to the symbolic values, and the REAL loaders
rebuild the correlation.  Replay formats and parses real decimal text end to end.
"""
import re

from vf.symkit import PARAM, REPLAY, NoTracing, R, B, all_close, begin, choose, finish, skip
from vf.stubs import thermo as th

import pgradd.Units.qty as Q
import pgradd.yaml_io as yio
from pgradd.Units import eval_qty
import pgradd.ThermoChem  # noqa: F401
import pgradd.GroupAdd.Library as _L

Q.print = lambda *a, **k: None
if REPLAY is None:
    Q.GenericQuantity.__str__ = lambda self: '<quantity>'

PROPERTY = 'C18'
FUNCTIONS_ENCODED = [
    'pgradd.ThermoChem.incomplete:ThermochemIncomplete.yaml_format',
    'pgradd.ThermoChem.incomplete:ThermochemIncomplete.yaml_construct',
    'pgradd.ThermoChem.incomplete:ThermochemIncomplete.has_ND_H',
    'pgradd.ThermoChem.incomplete:ThermochemIncomplete.has_ND_S',
    'pgradd.ThermoChem.incomplete:ThermochemIncomplete.has_ND_Cp',
    'pgradd.Units.qty:Quantity.fmt_in_units', 'pgradd.Units.qty:GenericQuantity.in_units',
    'pgradd.Units.helpers:with_units', 'pgradd.yaml_io.builtins:qty_loader.__call__',
    'pgradd.yaml_io.schema:ObjectLoader.__call__',
]
UNIT_SETS = [
    {},                                                                      # non-dimensional
    {'molar enthalpy': 'kcal/mol', 'molar entropy': 'cal/mol/K', 'molar heat capacity': 'cal/mol/K'},
    {'molar enthalpy': 'kJ/mol', 'molar entropy': 'J/mol/K', 'molar heat capacity': 'J/mol/K'},
    {'molar enthalpy': 'J/mol', 'molar entropy': 'J/mol/K', 'molar heat capacity': 'J/mol/K'},
    {'molar enthalpy': 'kJ/mol'},                                            # mixed: H dimensional, S/Cp non-dimensional
]
T_UNITS = [None, 'K', 'mK']
CP_T = [300.0, 400.0, 500.0]
BOUNDS = {
    'quick': 'correlations with symbolic real T_ref, optional H_ref/S_ref (zero and negative included), 0..2 Cp points '
             '(concrete temperatures, symbolic values), optional symbolic range; 5 output-unit sets x 3 temperature-unit '
             'choices',
    'thorough': '0..3 Cp points',
}
STUBS = ['TextTokens: each number rendered by %g/%r becomes a placeholder token mapped back to its symbolic value after the '
         'real libyaml parsed the text', 'np.array -> list in incomplete.py', 'PolySpline for FITPACK', 'warn recorder']
ASSUMPTIONS = ['float := real', 'decimal rendering (%g: six significant digits, %r: exact) and YAML numeral resolution are the '
               'identity on reals: the "six significant digits" clause is NOT decided symbolically (replay renders for real)',
               'a scalar "<number> <unit>" is number x unit (the units parser is C10)']
OUTSIDE = ['%g rounding', 'repr round-tripping', 'YAML scalar resolution of numerals']
REALISED = []

_loader = yio.make_object_loader(yio.parse(
    '\n'.join(('%r:\n    type: %r\n    optional: true' % (str(name), str(_L.GroupLibrary._property_set_group_yaml_types[name])))
              for name in _L.GroupLibrary._property_set_group_yaml_types)))
_PH = re.compile(r'^PH(\d+)PH(?:\s+(.*))?$')


def _install():
    m = th.install()
    if REPLAY is None:
        import numpy as real_np

        class _NP(object):
            def __getattr__(self, k):
                return getattr(real_np, k)

            @staticmethod
            def array(x, *a, **k):
                return list(x)
        m['inc'].np = _NP()
    th.patch_spline(None, record_only=True)
    return m


def _subst(node, table):
    """placeholders -> symbolic values in the tree libyaml produced"""
    if isinstance(node, dict):
        return dict((k, _subst(v, table)) for k, v in node.items())
    if isinstance(node, list):
        return [_subst(v, table) for v in node]
    if isinstance(node, str):
        mt = _PH.match(node.strip())
        if mt:
            v = table[int(mt.group(1))]
            return v * eval_qty(mt.group(2)) if mt.group(2) else v
    return node


def h_roundtrip(d: bool):
    """
    post: _[0]
    """
    begin()
    m = _install()
    ncp_max = PARAM.get('ncp', 2)
    iu = PARAM['iu'] if 'iu' in PARAM else choose('iu', len(UNIT_SETS))
    it = PARAM['it'] if 'it' in PARAM else choose('it', len(T_UNITS))
    units = dict(UNIT_SETS[iu])
    if T_UNITS[it] is not None:
        units['temperature'] = T_UNITS[it]
    hasH, hasS, hasR = B('hasH'), B('hasS'), B('hasRange')
    ncp = choose('ncp', ncp_max + 1)
    tref = R('tref')
    H = R('H') if hasH else None
    S = R('S') if hasS else None
    cp = dict((CP_T[i], R('cp%d' % i)) for i in range(ncp))
    if hasR:
        lo, hi = R('lo'), R('hi')
        if not (0 < lo <= tref <= hi and (not ncp or (lo <= CP_T[0] and CP_T[ncp - 1] <= hi))):
            return skip()
        rng = (lo, hi)
    else:
        rng = None
        if not (tref > 0) or (ncp and not (CP_T[0] <= tref <= CP_T[ncp - 1])):
            return skip()
    orig = m['inc'].ThermochemIncomplete(H, S, cp, tref, rng)
    table = []
    if REPLAY is None:
        import vf.plugin_impl as pi

        def render(v):
            with NoTracing():
                table.append(v)
                return 'PH%dPH' % (len(table) - 1)
        pi.SYM_RENDER[0] = render
    try:
        text = orig.yaml_format(units)
    except Exception as e:
        return finish(False, 'yaml_format raised:' + type(e).__name__)
    finally:
        if REPLAY is None:
            pi.SYM_RENDER[0] = None
    try:
        tree = yio.parse(text)
        tree = _subst(tree, table)
        back = yio.load({'thermochem': tree}, {'units': {}}, loader=_loader)['thermochem']
    except Exception as e:
        return finish(False, 'reloading raised:' + type(e).__name__, text if REPLAY is not None else '')
    if (back.ND_H_ref is None) != (H is None) or (back.ND_S_ref is None) != (S is None):
        return finish(False, 'presence of H_ref/S_ref changed in the round trip')
    if (back.get_range() is None) != (rng is None) or sorted(back.ND_Cp_data) != sorted(cp):
        return finish(False, 'range presence or table temperatures changed in the round trip')
    for v in [back.T_ref, back.ND_H_ref, back.ND_S_ref] + list(back.ND_Cp_data.values()):
        if isinstance(v, Q.GenericQuantity):
            return finish(False, 'reloaded value is a quantity with units, not a plain number')
    pairs, labels = [(back.T_ref, tref)], ['T_ref']
    if H is not None:
        pairs.append((back.ND_H_ref, H))
        labels.append('H_ref')
    if S is not None:
        pairs.append((back.ND_S_ref, S))
        labels.append('S_ref')
    for t in cp:
        pairs.append((back.ND_Cp_data[t], cp[t]))
        labels.append('Cp(%g)' % t)
    if rng is not None:
        pairs += [(back.get_range()[0], rng[0]), (back.get_range()[1], rng[1])]
        labels += ['range lo', 'range hi']
    ok, lab = all_close(pairs, labels, rel=1e-4 if REPLAY is None else 2e-5)
    return finish(ok, 'ok' if ok else '%s changed in the round trip (units set %d, temperature unit %s)' % (lab, iu, T_UNITS[it]))


def signature(ob, param, ret):
    return 'roundtrip:%s' % (str(ret[1]).split(' (units')[0] if len(ret) > 1 else '')


def obligations(tier, seed):
    q = tier == 'quick'
    to = 280 if q else 2400
    obs = []
    for iu in range(len(UNIT_SETS)):
        for it in range(len(T_UNITS)):
            obs.append(dict(name='roundtrip_u%d_t%d' % (iu, it), func='h_roundtrip',
                            param=dict(iu=iu, it=it, ncp=2 if q else 3), timeout=to))
    return obs


def validate(tier, seed):
    """Concrete end-to-end round trips with real decimal rendering (what the placeholders abstract)."""
    import random
    import warnings
    warnings.simplefilter('ignore')
    from pgradd.ThermoChem import ThermochemIncomplete
    rnd = random.Random(seed)
    bad, n = [], 0
    for _ in range(120):
        units = dict(rnd.choice(UNIT_SETS))
        tu = rnd.choice(T_UNITS + ['MK', 'uK'])
        if tu:
            units['temperature'] = tu
        H = rnd.choice([None, 0.0, -12.3456789, 45.1, 1.2345678e-9, -3.3e+7])       # incl. magnitudes %g writes with an exponent
        S = rnd.choice([None, 0.0, 3.14159265, -2.5, 7.654321e-8])
        ncp = rnd.randint(0, 3)
        cp = dict((CP_T[i], rnd.choice([0.0, 1.2345678, 7.5])) for i in range(ncp))
        rng = rnd.choice([None, (250.0, 1500.0)])
        tref = 400.0 if (ncp and rng is None) else 298.15
        if ncp == 1 and rng is None:
            tref = 300.0
        try:
            c = ThermochemIncomplete(H, S, cp, tref, rng)
            back = yio.load({'thermochem': yio.parse(c.yaml_format(units))}, {'units': {}}, loader=_loader)['thermochem']
            ok = (back.ND_H_ref is None) == (H is None) and (back.ND_S_ref is None) == (S is None) and \
                sorted(back.ND_Cp_data) == sorted(cp) and abs(back.T_ref - tref) <= 1e-5 * tref
            if ok and H is not None:
                ok = abs(back.ND_H_ref - H) <= 2e-5 * abs(H)
            if ok and S is not None:
                ok = abs(back.ND_S_ref - S) <= 2e-5 * abs(S)
        except Exception as e:
            ok = False
            bad.append(repr(e)[:80])
        n += 1
        if not ok:
            bad.append((H, S, sorted(cp), rng, units))
    entry = dict(name='concrete round trips with real %g/%r rendering and libyaml', ok=True, n=n,
                 detail='%d failures: %r' % (len(bad), bad[:2]))
    if bad:
        entry['violation'] = [False, 'concrete round trip failed', {'first': str(bad[0])[:200]}]
        entry['func'] = 'concrete'
    return [entry, shipped_roundtrip()]


def shipped_roundtrip():
    """every group of every shipped library, written non-dimensionally and in kJ/mol, must read back (real code, concrete)"""
    import warnings
    warnings.simplefilter('ignore')
    from pgradd.GroupAdd.Library import GroupLibrary
    libs = ['BensonGA', 'GRWAqueous2018', 'GRWSurface2018', 'GuSolventGA2017Aq', 'GuSolventGA2017Vac', 'PPY', 'PtSurface2023',
            'SalciccioliGA2012', 'XieGA2022']
    bad, n = [], 0
    for name in libs:
        lib = GroupLibrary.Load(name)
        for g in lib:
            c = lib[g].get('thermochem')
            if c is None:
                continue
            for units in (UNIT_SETS[0], UNIT_SETS[2]):
                n += 1
                try:
                    back = yio.load({'thermochem': yio.parse(c.yaml_format(units))}, {'units': {}}, loader=_loader)['thermochem']
                    ok = (back.ND_H_ref is None) == (c.ND_H_ref is None) and sorted(back.ND_Cp_data) == sorted(float(t) for t in c.ND_Cp_data)
                    if ok and c.ND_H_ref is not None:
                        ok = abs(back.ND_H_ref - c.ND_H_ref) <= 2e-5 * max(1e-9, abs(c.ND_H_ref))
                    for t in c.ND_Cp_data:
                        if ok:
                            ok = abs(back.ND_Cp_data[float(t)] - c.ND_Cp_data[t]) <= 2e-5 * max(1e-9, abs(c.ND_Cp_data[t]))
                except Exception as e:
                    ok = False
                    if len(bad) < 3:
                        bad.append('%s %s: %s %s' % (name, g, type(e).__name__, str(e)[:80]))
                if not ok and len(bad) < 3:
                    bad.append('%s %s' % (name, g))
                if not ok:
                    bad.append(None)
    nbad = len([b for b in bad if b is None]) or len(bad)
    entry = dict(name='every group of every shipped library: yaml_format -> parse -> load (non-dimensional and kJ/mol)', ok=True, n=n,
                 detail='%d of %d round trips failed: %r' % (nbad, n, [b for b in bad if b][:2]))
    if bad:
        entry['violation'] = [False, 'shipped group round trip failed', {'first': str([b for b in bad if b][:1])}]
        entry['func'] = 'concrete-shipped'
    return entry
