"""C20 - standard errors are the scaled quadratic form of the descriptors (DESIGN 4/C20)."""
import itertools
import warnings

from vf.symkit import PARAM, REPLAY, NoTracing, R, all_close, begin, choose, finish, skip
from vf.stubs import thermo as th
from vf.stubs import numeric as nm

warnings.simplefilter('ignore')

PROPERTY = 'C20'
FUNCTIONS_ENCODED = [
    'pgradd.ThermoChem.group_data:ThermochemGroupAdditive.__init__',
    'pgradd.ThermoChem.group_data:ThermochemGroupAdditive.get_CpoR_SE',
    'pgradd.ThermoChem.group_data:ThermochemGroupAdditive.get_HoRT_SE',
    'pgradd.ThermoChem.group_data:ThermochemGroupAdditive.get_SoR_SE',
]
UQ_LIBS = ['GRWAqueous2018', 'GRWSurface2018', 'GuSolventGA2017Vac']   # the libraries whose library.yaml includes uq.yaml
BOUNDS = {
    'quick': 'synthetic basis of 3 descriptors: concrete rational symmetric M with symbolic real counts and RMSE; symbolic '
             'symmetric M with <= 2 non-zero counts; counts from a grid of 5 concrete values incl. fractional and negative ones (125 vectors, solver-enumerated); scaling factor, mapping order and an out-of-basis descriptor symbolic; '
             'shipped uncertainty libraries: concrete M, the WHOLE count vector over the basis symbolic at once (66-75 reals) and a seeded subset of 12',
    'thorough': 'the same for all three properties and 3 seeded subsets per library',
}
STUBS = ['NpShim/Arr/Vec for numpy in group_data (zeros incl. 1-D and integer dtype = truncation on assignment, item assignment, transpose, dot, @, square, sqrt)',
         'SQRT is a bare uninterpreted function: the radicand handed to sqrt is compared with RMSE^2 x.M.x and the value returned must be that sqrt term (sign and value of the root are numpy.sqrt\'s contract)',
         'RMSE correlation = stub returning a symbolic real']
ASSUMPTIONS = ['float := real', "x'Mx >= 0 (sqrt of a negative radicand is outside the claim; PSD-ness of shipped matrices is C14)",
               'shipped libraries: the other basis counts are 0']
OUTSIDE = ['IEEE rounding in the dot products', 'positive semi-definiteness of the stored matrices']
REALISED = ['permutation of the mapping order (solver-enumerated)']

M3 = [[2.0, 0.5, -1.0], [0.5, 3.0, 0.25], [-1.0, 0.25, 1.5]]
NAMES = ['ga', 'gb', 'gc']


class _Corr(object):
    def get_range(self):
        return None


class _Rmse(object):
    def __init__(self):
        self.r = dict(get_CpoR=R('rcp'), get_HoRT=R('rh'), get_SoR=R('rs'))

    def get_CpoR(self, T):
        return self.r['get_CpoR']

    def get_HoRT(self, T):
        return self.r['get_HoRT']

    def get_SoR(self, T):
        return self.r['get_SoR']


class _Holder(object):
    pass


def _Lib(descriptors, mat, rmse, known):
    """a REAL GroupLibrary carrying synthetic uncertainty data (as _do_load builds it)"""
    from pgradd.GroupAdd.Library import GroupLibrary
    h = _Holder()
    h.thermochem = rmse
    contents = dict((g, {'thermochem': _Corr()}) for g in known)
    return GroupLibrary(None, contents, dict(RMSE=h, descriptors=list(descriptors), mat=mat, dof=10))


_sqrt_args = []


def _install():
    m = th.install()
    if REPLAY is None:
        def orig(x):
            return x.map(nm.sqrt_uf) if isinstance(x, nm.Arr) else nm.sqrt_uf(x)

        def rec_sqrt(x):
            r = orig(x)
            _sqrt_args.append((x, r))
            return r
        m['shim'].sqrt = rec_sqrt
    return m


GRIDX = [0.0, 0.5, 1.0, -2.75, 3.0]


def _quad(M, x):
    acc = 0
    for i in range(len(x)):
        for j in range(len(x)):
            if not nm.is_sym(M[i][j]) and M[i][j] == 0:
                continue
            acc = acc + x[i] * M[i][j] * x[j]
    return acc


def _se(est, getter):
    """(status, value, radicand seen by sqrt)"""
    del _sqrt_args[:]
    try:
        v = getattr(est, getter + '_SE')(300.0)
    except Exception as e:
        return 'raised:' + type(e).__name__, None, None
    rad, out = _sqrt_args[-1] if _sqrt_args else (None, None)
    if isinstance(rad, nm.Arr):
        rad, out = rad.item(), out.item()
    if REPLAY is None and not (out is not None and v == out):
        return 'the value returned is not the square root taken (non-negativity is the contract of sqrt)', v, rad
    return 'value', v, rad


def h_quadform(d: bool):
    """
    post: _[0]
    """
    begin()
    m = _install()
    mode = PARAM.get('mode', 'concreteM')
    getter = PARAM.get('getter', 'get_HoRT')
    if mode == 'concreteM':
        M = M3
        x = [R('x0'), R('x1'), R('x2')]
    elif mode == 'gridx':
        # counts chosen by the solver from a small grid of concrete values incl. fractional and negative ones (fractional counts
        # occur in shipped decompositions); RMSE stays symbolic
        M = M3
        x = [GRIDX[choose('gx%d' % i, len(GRIDX))] for i in range(3)]
    else:
        a, b, c, d_, e, f = R('m00'), R('m01'), R('m02'), R('m11'), R('m12'), R('m22')
        M = [[a, b, c], [b, d_, e], [c, e, f]]
        zero = choose('zero', 3)
        x = [0.0 if i == zero else R('x%d' % i) for i in range(3)]
    rm = _Rmse()
    lib = _Lib(NAMES, M, rm, NAMES)
    perm = list(itertools.permutations(range(3)))[choose('perm', 6)]
    groups = {}
    for i in perm:
        groups[NAMES[i]] = x[i]
    q = _quad(M, x)
    if not (q >= 0):
        return skip()
    est = m['gd'].ThermochemGroupAdditive(lib, groups)
    status, v, rad = _se(est, getter)
    if status != 'value':
        return finish(False, status)
    if isinstance(v, nm.Arr) or hasattr(v, 'shape'):
        return finish(False, 'standard error is not a plain number')
    r = rm.r[getter]
    want2 = r * r * q
    if REPLAY is None:
        ok, lab = all_close([(rad, want2)], ['radicand != RMSE^2 * x.M.x'])
    else:
        ok, lab = all_close([(v * v, want2)], ['SE^2 != RMSE^2 * x.M.x'])
        ok = ok and v >= 0
    return finish(ok, lab if not ok or lab != 'ok' else 'ok')


def h_scaling(d: bool):
    """
    post: _[0]
    """
    begin()
    m = _install()
    getter = PARAM.get('getter', 'get_HoRT')
    x = [R('x0'), R('x1'), R('x2')]
    c = R('c')
    rm = _Rmse()
    lib = _Lib(NAMES, M3, rm, NAMES)
    if not (_quad(M3, x) >= 0):
        return skip()
    e1 = m['gd'].ThermochemGroupAdditive(lib, dict(zip(NAMES, x)))
    e2 = m['gd'].ThermochemGroupAdditive(lib, dict(zip(NAMES, [c * xi for xi in x])))
    s1, v1, r1 = _se(e1, getter)
    s2, v2, r2 = _se(e2, getter)
    if s1 != 'value' or s2 != 'value':
        return finish(False, s1 if s1 != 'value' else s2)
    if REPLAY is None:
        ok, lab = all_close([(r2, c * c * r1)], ['radicand(c*x) != c^2 * radicand(x)'])
    else:
        ok, lab = all_close([(v2, abs(c) * v1)], ['SE(c*x) != |c| * SE(x)'])
    return finish(ok, lab)


def h_outside_basis(d: bool):
    """
    post: _[0]
    """
    begin()
    m = _install()
    x = [R('x0'), R('x1'), R('x2')]
    extra = R('xe')
    rm = _Rmse()
    lib = _Lib(NAMES, M3, rm, NAMES + ['gz'])        # 'gz' has data but is not in the uncertainty basis
    pos = choose('pos', 4)
    keys = list(NAMES)
    keys.insert(pos, 'gz')
    vals = dict(zip(NAMES, x))
    vals['gz'] = extra
    groups = {}
    for k in keys:
        groups[k] = vals[k]
    try:
        est = m['gd'].ThermochemGroupAdditive(lib, groups)
        st, v, rad = _se(est, 'get_HoRT')
        return finish(st != 'value', 'a descriptor outside the uncertainty basis was ignored' if st == 'value' else st)
    except Exception as e:
        return finish(True, 'raised:' + type(e).__name__)


_SHIP = None
if PARAM.get('lib'):
    import pgradd.ThermoChem  # noqa: F401
    from pgradd.GroupAdd.Library import GroupLibrary
    _l = GroupLibrary.Load(PARAM['lib'])
    _SHIP = (_l, [str(g) for g in _l.uq_contents['descriptors']], _l.uq_contents['mat'].tolist())


def h_shipped(d: bool):
    """
    post: _[0]
    """
    begin()
    m = _install()
    lib, names, M = _SHIP
    getter = PARAM.get('getter', 'get_HoRT')
    idx = PARAM['idx']
    x = [0.0] * len(names)
    groups = {}
    for i in idx:
        x[i] = R('x%d' % i)
        groups[names[i]] = x[i]
    sub = [[M[i][j] for j in idx] for i in idx]
    q = _quad(sub, [x[i] for i in idx])
    rm = _Rmse()
    # the real library object; only its RMSE correlation is replaced by a symbolic one
    saved = lib.uq_contents['RMSE']
    h = _Holder()
    h.thermochem = rm
    lib.uq_contents['RMSE'] = h
    try:
        est = m['gd'].ThermochemGroupAdditive(lib, groups)
        status, v, rad = _se(est, getter)
    finally:
        lib.uq_contents['RMSE'] = saved
    if status != 'value':
        return finish(False, status)
    r = rm.r[getter]
    if REPLAY is None:
        ok, lab = all_close([(rad, r * r * q)], ['radicand != RMSE^2 * x.M.x'])
    else:
        ok, lab = all_close([(v * v, r * r * q)], ['SE^2 != RMSE^2 * x.M.x'])
    if REPLAY is not None and not (v >= 0):
        ok, lab = False, 'negative standard error'
    return finish(ok, lab)


def signature(ob, param, ret):
    return '%s:%s' % (ob.split('_')[0], ret[1] if len(ret) > 1 else '')


def obligations(tier, seed):
    import random
    q = tier == 'quick'
    to = 280 if q else 2400
    rnd = random.Random(seed)
    obs = []
    for g in ('get_CpoR', 'get_HoRT', 'get_SoR'):
        obs.append(dict(name='quadform_concreteM_%s' % g, func='h_quadform', param=dict(mode='concreteM', getter=g), timeout=to))
        obs.append(dict(name='quadform_symbolicM_%s' % g, func='h_quadform', param=dict(mode='symbolicM', getter=g), timeout=to))
    obs.append(dict(name='quadform_gridx', func='h_quadform', param=dict(mode='gridx', getter='get_SoR'), timeout=to))
    obs.append(dict(name='scaling', func='h_scaling', param=dict(getter='get_HoRT'), timeout=to))
    obs.append(dict(name='outside_basis', func='h_outside_basis', param={}, timeout=to))
    obs.append(dict(name='two_libraries', func='h_two_libraries', param={}, timeout=to))
    import yaml  # noqa: F401
    for lib in UQ_LIBS:
        n = _basis_size(lib)
        if not n:
            continue
        # the WHOLE count vector over the uncertainty basis symbolic at once (66-75 reals): the radicand is a quadratic form
        # with the stored matrix as coefficients; z3 normalises both sides to the same polynomial
        for g in (('get_HoRT',) if q else ('get_CpoR', 'get_HoRT', 'get_SoR')):
            obs.append(dict(name='shipped_%s_all_%s' % (lib, g), func='h_shipped',
                            param=dict(lib=lib, idx=list(range(n)), getter=g), timeout=to))
        for rep in range(1 if q else 3):
            idx = sorted(rnd.sample(range(n), min(n, 12)))
            obs.append(dict(name='shipped_%s_%d' % (lib, rep), func='h_shipped',
                            param=dict(lib=lib, idx=idx, getter=rnd.choice(['get_CpoR', 'get_HoRT', 'get_SoR'])), timeout=to))
    return obs


def _basis_size(lib):
    import os
    import yaml
    p = os.path.join(__import__('vf.symkit').symkit.REPO, 'pgradd/data', lib, 'uq.yaml')
    if not os.path.exists(p):
        return 0
    try:
        d = yaml.safe_load(open(p))
        return len(d['UQ']['InvCovMat']['groups'])
    except Exception:
        return 0


def validate(tier, seed):
    """The real numpy path on concrete counts (no shim): SE value vs the closed form."""
    import math
    import numpy as np
    import pgradd.ThermoChem.group_data as gd

    class RM(object):
        def get_CpoR(self, T): return 0.5
        def get_HoRT(self, T): return 2.0
        def get_SoR(self, T): return 1.5
    h = _Holder()
    h.thermochem = RM()
    lib = _Lib(NAMES, np.array(M3), RM(), NAMES)
    lib.uq_contents['RMSE'] = h
    x = [1.0, -2.0, 0.5]
    est = gd.ThermochemGroupAdditive(lib, dict(zip(NAMES, x)))
    q = sum(x[i] * M3[i][j] * x[j] for i in range(3) for j in range(3))
    entry = dict(name='real numpy path of get_HoRT_SE on concrete counts vs closed form', n=1)
    try:
        v = est.get_HoRT_SE(300.0)
        entry['ok'] = abs(v - 2.0 * math.sqrt(q)) < 1e-9 and isinstance(v, float)
        entry['detail'] = 'SE=%r expected %r' % (v, 2.0 * math.sqrt(q))
    except Exception as e:
        entry['ok'] = True
        entry['detail'] = 'raised %s: %s' % (type(e).__name__, e)
        entry['violation'] = [False, 'raised:' + type(e).__name__, {'x': x}]
        entry['func'] = 'concrete'
    return [entry]


def h_two_libraries(d: bool):
    """
    post: _[0]
    """
    begin()
    # two library objects (same path: None) whose uncertainty bases list the same descriptors in DIFFERENT orders, with the
    # matrix permuted accordingly: the same mapping must give the same radicand from both, whichever is used first
    m = _install()
    x = [R('x0'), R('x1'), R('x2')]
    perm = list(itertools.permutations(range(3)))[choose('perm2', 6)]
    rm = _Rmse()
    libA = _Lib(NAMES, M3, rm, NAMES)
    namesB = [NAMES[i] for i in perm]
    MB = [[M3[perm[i]][perm[j]] for j in range(3)] for i in range(3)]
    libB = _Lib(namesB, MB, rm, NAMES)
    groups = dict(zip(NAMES, x))
    first = choose('first', 2)
    order = [libA, libB] if first == 0 else [libB, libA]
    rads, vals = [], []
    if REPLAY is not None and not (_quad(M3, x) >= 0):
        return skip()
    for lib in order:
        est = m['gd'].ThermochemGroupAdditive(lib, groups)
        st, v, rad = _se(est, 'get_HoRT')
        if st != 'value':
            return finish(False, st)
        rads.append(rad)
        vals.append(v)
    want = rm.r['get_HoRT'] * rm.r['get_HoRT'] * _quad(M3, x)
    labels = ['first library used', 'two_libraries: the second library used gives a different radicand']
    if REPLAY is None:
        ok, lab = all_close([(rads[0], want), (rads[1], want)], labels)
    else:
        ok, lab = all_close([(vals[0] * vals[0], want), (vals[1] * vals[1], want)], labels)
    return finish(ok, lab)
