"""C07 - dimensional results are the non-dimensional ones times R (and T) (DESIGN 4/C07)."""
import ast
import inspect

from vf.symkit import PARAM, REPLAY, R, B, all_close, begin, choose, close, finish, skip
from vf.stubs import thermo as th

from pmutt import constants as _c

PROPERTY = 'C07'
FUNCTIONS_ENCODED = [
    'pgradd.ThermoChem.base:ThermochemBase.get_H',
    'pgradd.ThermoChem.base:ThermochemBase.get_G',
    'pgradd.ThermoChem.base:ThermochemBase.get_S',
    'pgradd.ThermoChem.base:ThermochemBase.get_Cp',
    'pgradd.ThermoChem.base:ThermochemBase.get_GoRT',
    'pgradd.ThermoChem.group_data:ThermochemGroupAdditive.get_Selements',
    'pgradd.ThermoChem.group_data:ThermochemGroupAdditive.get_SoR',
]
BOUNDS = {
    'quick': 'every key of the installed pmutt gas-constant table (enumerated at run time); T and the non-dimensional '
             'values symbolic reals; the same object asked in two symbolic units in sequence; elemental clause: molecules of <= 3 explicit atoms + <= 2 added hydrogens over '
             '{H,C,N,O,Ru,Pt}, <= 2 constituents',
    'thorough': 'same units; elemental clause: <= 4 explicit atoms + <= 3 added hydrogens',
}
STUBS = ['stub correlation with symbolic Cp/R, H/RT, S/R behind the real ThermochemBase dimensional getters',
         'fake Chem in group_data: MolFromSmiles/AddHs/GetAtoms/GetAtomicNum over a symbolic atom list']
ASSUMPTIONS = ['float := real', 'elemental clause: 0 < T <= 10000 K (the tabulated elemental entropies are float constants summed in a different order by the oracle)', 'RDKit AddHs adds the right hydrogens (fake adds an arbitrary number of H atoms)',
               'the unit table is a finite configuration: one obligation per key, each universal over T and values']
OUTSIDE = ['which SMILES string the estimate reads (history: C15)', 'IEEE rounding of the products']
REALISED = ['atomic numbers (choice among 6 elements per atom, solver-enumerated)']


def r_table():
    """Keys/values of pmutt.constants.R's table, read from the installed source at run time."""
    src = inspect.getsource(_c.R)
    tree = ast.parse(src)
    for node in ast.walk(tree):
        if isinstance(node, ast.Assign) and getattr(node.targets[0], 'id', None) == 'R_dict':
            return ast.literal_eval(node.value)
    raise RuntimeError('R_dict not found in pmutt.constants.R')


_RJ = r_table()['J/mol/K']          # read once at import (outside the tracer)


class _Stub(object):
    pass


def _make_corr(base):
    class C(base.ThermochemBase):
        def __init__(self):
            base.ThermochemBase.__init__(self, None)
            self.cp, self.h, self.s, self.sel = R('cp'), R('h'), R('s'), R('sel')

        def get_CpoR(self, T):
            return self.cp

        def get_HoRT(self, T):
            return self.h

        def get_SoR(self, T, S_elements=None):
            return self.s - (self.sel if S_elements else 0)
    return C()


def h_dimensional(d: bool):
    """
    post: _[0]
    """
    begin()
    m = th.install()
    key = PARAM['key']                 # e.g. 'kJ/mol/K'
    Rv = r_table()[key]
    c = _make_corr(m['base'])
    T = R('T')
    if not (T > 0):
        return skip()
    sel = choose('selmode', 3)         # 0: None, 1: False, 2: True
    S_el = [None, False, True][sel]
    status, ok = 'ok', True
    try:
        s_nd = c.s - (c.sel if S_el else 0)
        pairs = [(c.get_S(T, key, S_elements=S_el), s_nd * Rv), (c.get_Cp(T, key), c.cp * Rv)]
        labels = ['S != (S/R)*R(u)', 'Cp != (Cp/R)*R(u)']
        if key.endswith('/K'):
            eu = key[:-2]              # energy unit accepted by get_H/get_G
            Hd = c.get_H(T, eu)
            pairs += [(Hd, c.h * T * Rv), (c.get_G(T, eu, S_elements=S_el), c.h * T * Rv - T * (s_nd * Rv))]
            labels += ['H != (H/RT)*T*R(u)', 'G != H - T*S']
        ok, status = all_close(pairs, labels)
    except Exception as e:
        ok, status = False, 'raised:' + type(e).__name__
    return finish(ok, status)


ELEMENTS = [1, 6, 7, 8, 44, 78]


class _FAtom(object):
    def __init__(self, z):
        self.z = z

    def GetAtomicNum(self):
        return self.z


class _FMol(object):
    def __init__(self, atoms):
        self.atoms = atoms

    def GetAtoms(self):
        return list(self.atoms)


class _FakeChem(object):
    """MolFromSmiles(name) -> the molecule registered under that name; AddHs appends its hydrogens."""

    def __init__(self, table, hs):
        self.table, self.hs = table, hs
        self.rdmolops = self

    def MolFromSmiles(self, name):
        return _FMol(self.table[name])

    def AddHs(self, mol):
        return _FMol(list(mol.atoms) + [_FAtom(1) for _ in range(self.hs)])


class _Lib(object):
    uq_contents = {}

    def __init__(self, name, corrs):
        self.name, self.c = name, corrs

    def __getitem__(self, g):
        return {'thermochem': self.c[g]}


class _GC(object):
    def __init__(self, i):
        self.s, self.h = R('s%d' % i), R('h%d' % i)

    def get_range(self):
        return None

    def get_SoR(self, T):
        return self.s

    def get_HoRT(self, T):
        return self.h


def h_elemental(d: bool):
    """
    post: _[0]
    """
    begin()
    m = th.install()
    gd = m['gd']
    natoms, maxh, ncorr = PARAM.get('natoms', 2), PARAM.get('maxh', 2), PARAM.get('ncorr', 2)
    zs = [ELEMENTS[choose('z%d' % i, len(ELEMENTS))] for i in range(natoms)]
    nh = choose('nh', maxh + 1)
    saved = gd.Chem
    name = 'M'
    if REPLAY is None:
        gd.Chem = _FakeChem({'M': [_FAtom(z) for z in zs]}, nh)
    else:
        # replay with the real RDKit: isolated bracket atoms (no implicit H) plus nh explicit [H] atoms
        # the nh hydrogens are written as the H count of the first heavy bracket atom (so that they exist only after AddHs);
        # with no heavy atom they are separate [H] atoms
        sym = {1: 'H', 6: 'C', 7: 'N', 8: 'O', 44: 'Ru', 78: 'Pt'}
        parts, placed = [], False
        for z in zs:
            if z != 1 and not placed and nh:
                parts.append('[%sH%d]' % (sym[z], nh) if nh > 1 else '[%sH]' % sym[z])
                placed = True
            else:
                parts.append('[%s]' % sym[z])
        if not placed:
            parts += ['[H]'] * nh
        name = '.'.join(parts)
    try:
        corrs = [_GC(i) for i in range(ncorr)]
        counts = dict((i, R('n%d' % i)) for i in range(ncorr))
        est = gd.ThermochemGroupAdditive(_Lib(name, corrs), counts)
        T = R('T')
        if natoms <= 2 and not (0 < T <= 10000.0):
            # the dimensional pairs multiply by T: the expected elemental sum is a float sum of the tabulated constants in
            # another order than the code's (1e-16 relative apart), which an unbounded T would blow up past the tolerance
            return skip()
        Rj = _RJ
        base_s = 0
        base_h = 0
        for i in range(ncorr):
            base_s = base_s + counts[i] * corrs[i].s
            base_h = base_h + counts[i] * corrs[i].h
        # summed atom by atom in the molecule's atom order (heavy atoms, then the added hydrogens), so that the float constants
        # add up to the very same float as in the code and the difference of the two sides is the zero polynomial
        want_sel = 0
        for z in zs:
            want_sel = want_sel + _c.S_elements[z]
        for _ in range(nh):
            want_sel = want_sel + _c.S_elements[1]
        dims = natoms <= 2          # the dimensional getters of the estimate do not depend on the atom count: small cases only
        ok, status = all_close(
            [(est.get_SoR(T, S_elements=True), base_s - want_sel),
             (est.get_SoR(T), base_s),
             (est.get_SoR(T, S_elements=False), base_s),
             (est.get_GoRT(T, S_elements=True), base_h - (base_s - want_sel)),
             (est.get_GoRT(T), base_h - base_s)] + ([
                 # the dimensional getters of the ESTIMATE class (it may override them), one energy unit
                 (est.get_G(T, 'J/mol', S_elements=True), (base_h - (base_s - want_sel)) * T * Rj),
                 (est.get_G(T, 'J/mol'), (base_h - base_s) * T * Rj),
                 (est.get_S(T, 'J/mol/K', S_elements=True), (base_s - want_sel) * Rj),
                 (est.get_S(T, 'J/mol/K'), base_s * Rj),
                 (est.get_H(T, 'J/mol'), base_h * T * Rj)] if dims else []),
            ['S/R(S_elements) != S/R - sum of elemental entropies over all atoms incl. H',
             'S/R without the elemental reference changed', 'S/R with S_elements=False changed',
             'G/RT(S_elements) != H/RT - (S/R - elemental)', 'G/RT != H/RT - S/R',
             'estimate: G(T,u,S_elements) != H(T,u) - T*S(T,u,S_elements)', 'estimate: G(T,u) != H(T,u) - T*S(T,u)',
             'estimate: S(T,u,S_elements) != (S/R - elemental)*R(u)', 'estimate: S(T,u) != (S/R)*R(u)',
             'estimate: H(T,u) != (H/RT)*T*R(u)'])
    except Exception as e:
        ok, status = False, 'raised:' + type(e).__name__
    finally:
        gd.Chem = saved
    return finish(ok, status, zs, nh)


def signature(ob, param, ret):
    return '%s:%s' % (ob.split('_')[0], ret[1] if len(ret) > 1 else '')


def obligations(tier, seed):
    q = tier == 'quick'
    to = 200 if q else 1200
    obs = []
    for key in sorted(r_table()):
        obs.append(dict(name='dimensional_' + key.replace(' ', '_').replace('/', '-'), func='h_dimensional',
                        param=dict(key=key), timeout=to))
    for u1 in range(len([k for k in r_table() if k.endswith('/K')])):
        obs.append(dict(name='two_units_%d' % u1, func='h_two_units', param=dict(fix=dict(u1=u1)), timeout=to))
    for natoms in (1, 2, 3) if q else (1, 2, 3, 4):
        obs.append(dict(name='elemental_a%d' % natoms, func='h_elemental',
                        param=dict(natoms=natoms, maxh=2 if q else 3, ncorr=2), timeout=to))
    return obs


def validate(tier, seed):
    """The fake Chem is validated against RDKit: AddHs(MolFromSmiles(s)).GetAtoms() atomic numbers."""
    from rdkit import Chem
    n = 0
    ok = True
    for smi, heavy in (('C', [6]), ('CO', [6, 8]), ('[Pt]C', [78, 6]), ('N', [7]), ('[Ru]O', [44, 8])):
        mol = Chem.rdmolops.AddHs(Chem.MolFromSmiles(smi))
        zs = [a.GetAtomicNum() for a in mol.GetAtoms()]
        nh = zs.count(1)
        fake = _FakeChem({'M': [_FAtom(z) for z in heavy]}, nh)
        fz = [a.GetAtomicNum() for a in fake.AddHs(fake.MolFromSmiles('M')).GetAtoms()]
        ok = ok and sorted(fz) == sorted(zs)
        n += 1
    missing = [z for z in ELEMENTS if z not in _c.S_elements]
    return [dict(name='fake Chem (AddHs/GetAtoms/GetAtomicNum) vs RDKit on 5 molecules', ok=ok and not missing, n=n,
                 detail='elements missing from pmutt S_elements: %r' % missing)]


def h_two_units(d: bool):
    """
    post: _[0]
    """
    begin()
    # the SAME correlation object asked at the SAME temperature in two different units (and with/without the elemental
    # reference in between): each answer must be the product with ITS OWN gas constant - nothing remembered between calls
    m = th.install()
    tab = r_table()
    keys = sorted(k for k in tab if k.endswith('/K'))
    k1 = keys[choose('u1', len(keys))]
    k2 = keys[choose('u2', len(keys))]
    c = _make_corr(m['base'])
    T = R('T')
    if not (T > 0):
        return skip()
    try:
        h1 = c.get_H(T, k1[:-2])
        s1 = c.get_S(T, k1, S_elements=True)
        h2 = c.get_H(T, k2[:-2])
        s2 = c.get_S(T, k2)
        g2 = c.get_G(T, k2[:-2])
        s1b = c.get_S(T, k1)
    except Exception as e:
        return finish(False, 'raised:' + type(e).__name__)
    ok, status = all_close(
        [(h1, c.h * T * tab[k1]), (s1, (c.s - c.sel) * tab[k1]), (h2, c.h * T * tab[k2]), (s2, c.s * tab[k2]),
         (g2, c.h * T * tab[k2] - T * c.s * tab[k2]), (s1b, c.s * tab[k1])],
        ['H in the first unit', 'S with the elemental reference', 'two_units: H in a second unit is not (H/RT)*T*R(second unit)',
         'two_units: S in a second unit / without the elemental reference after it was requested with it',
         'two_units: G in the second unit', 'two_units: S without the elemental reference after a call with it'])
    return finish(ok, status)
