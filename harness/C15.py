"""C15 - results do not depend on what the library object did before (DESIGN 4/C15): bounded model checking of the real
Library/Scheme/Estimate code over stubbed chemistry, with a symbolic history of operations."""
from vf.symkit import PARAM, REPLAY, NoTracing, B, begin, choose, finish, skip
from vf.stubs import rdfakes as rf
from vf.stubs import thermo as th
import harness.C02 as K

import pgradd.GroupAdd.Scheme as SC
import pgradd.GroupAdd.Library as LB
from pmutt import constants as _c
from pgradd.Error import ReadOnlyDataError

PROPERTY = 'C15'
FUNCTIONS_ENCODED = [
    'pgradd.GroupAdd.Library:GroupLibrary.__init__', 'pgradd.GroupAdd.Library:GroupLibrary.GetDescriptors',
    'pgradd.GroupAdd.Library:GroupLibrary.Estimate', 'pgradd.GroupAdd.Library:GroupLibrary.Update',
    'pgradd.GroupAdd.Scheme:GroupAdditivityScheme.__init__', 'pgradd.GroupAdd.Scheme:GroupAdditivityScheme.GetDescriptors',
    'pgradd.ThermoChem.group_data:ThermochemGroupAdditive.__init__',
    'pgradd.ThermoChem.group_data:ThermochemGroupAdditive.get_Selements',
    'pgradd.ThermoChem.group_data:ThermochemGroupAdditive.get_SoR',
]
MOLS = {'M0': [6, 1], 'M1': [8, 1, 1]}          # abstract molecules: atomic numbers; atom 0 bonded to the others
EXPECT = {'M0': {'C(H)': 1}, 'M1': {'O(H)2': 1}}
DATA = {'C(H)': (1.5, 2.5), 'O(H)2': (-3.0, 4.0)}
OPS = ['decompose M0', 'decompose M1', 'estimate+evaluate latest', 'merge L into another library',
       'construct a scheme with include= and default arguments', 'merge another library into a copy target',
       'merge conflicting data into the other library with overwrite']
BOUNDS = {
    'quick': 'every history of <= 4 operations drawn from 6 kinds over 2 abstract molecules and 3 library objects, followed by '
             'five probes (estimate from an EARLIER decomposition and from the most recent REPEATED decomposition of the same molecule, incl. the elemental reference, a new decomposition, library '
             'contents, a freshly default-constructed scheme)',
    'thorough': 'histories of <= 5 operations',
}
STUBS = ['fake Chem in Scheme.py and group_data.py (molecules are named atom lists); patterns with a fixed match function']
ASSUMPTIONS = ['expected results are computed analytically from the construction (not from "fresh" objects, which would share '
               'process state with the history)', 'float := real is not needed: all numbers concrete']
OUTSIDE = ['file-system caches (DataDir), YAML loading, module import order']
REALISED = ['operation choices (solver-enumerated)']


def _mol(name):
    zs = MOLS[name]
    return rf.FMol([rf.FAtom(z) for z in zs], [rf.FBond(0, i, rf.BondType.SINGLE) for i in range(1, len(zs))])


class _Chem(rf.FakeChem):
    class rdmolops(object):
        AddHs = staticmethod(lambda m: m)

        class SanitizeFlags(object):
            SANITIZE_ADJUSTHS = SANITIZE_CLEANUP = SANITIZE_CLEANUPCHIRALITY = SANITIZE_FINDRADICALS = 0
            SANITIZE_KEKULIZE = SANITIZE_PROPERTIES = SANITIZE_SETCONJUGATION = SANITIZE_SETHYBRIDIZATION = 0
            SANITIZE_SYMMRINGS = 0

    def MolFromSmiles(self, name, sanitize=True):
        return _mol(name) if name in MOLS else None

    @staticmethod
    def SanitizeMol(m, *a, **k):
        pass


def _patterns():
    def by_z(z):
        return K.FakePattern(lambda mol: [(a.idx,) for a in mol.atoms if a.z == z])
    return [{'connectivity': by_z(6), 'center_name': 'C', 'periph_name': 'C'},
            {'connectivity': by_z(8), 'center_name': 'O', 'periph_name': 'O'},
            {'connectivity': by_z(1), 'center_name': 'none', 'periph_name': 'H'}]


def _lib(scheme, inc, groups):
    contents = dict((g, {'thermochem': inc.ThermochemIncomplete(DATA[g][0], DATA[g][1], {}, 298.15, None)}) for g in groups)
    return LB.GroupLibrary(scheme, contents)


def _sel(name):
    return sum(_c.S_elements[z] for z in MOLS[name])


def h_history(d: bool):
    """
    post: _[0]
    """
    begin()
    m = th.install()
    inc, gd = m['inc'], m['gd']
    k = choose('len', PARAM.get('k', 3) + 1)
    ops = [choose('op%d' % i, len(OPS)) for i in range(k)]
    saved = (SC.Chem, gd.Chem)
    SC.Chem = gd.Chem = _Chem()
    T = 298.15
    try:
        scheme = SC.GroupAdditivityScheme(patterns=_patterns(), pretreatment_rules=[], remaps={}, other_descriptors=[],
                                          smiles_based_descriptors=[], smarts_based_descriptors=[], include=[])
        L = _lib(scheme, inc, ['C(H)', 'O(H)2'])
        other = _lib(scheme, inc, [])
        donor = _lib(scheme, inc, ['C(H)'])
        conflicting = LB.GroupLibrary(scheme, dict((g, {'thermochem': inc.ThermochemIncomplete(9.0, 9.0, {}, 298.15, None)})
                                                   for g in DATA))
        d0 = L.GetDescriptors('M0')                 # the EARLIER decomposition the probe will estimate from
        latest = ('M0', d0)
        last_m0 = d0                                # the most recent decomposition of M0 (a repeated one after op 0)
        for o in ops:
            if o == 0:
                latest = ('M0', L.GetDescriptors('M0'))
                last_m0 = latest[1]
            elif o == 1:
                latest = ('M1', L.GetDescriptors('M1'))
            elif o == 2:
                e = L.Estimate(latest[1], 'thermochem')
                e.get_SoR(T, S_elements=True)
                e.get_HoRT(T)
            elif o == 3:
                try:
                    other.Update(L)
                except ReadOnlyDataError:
                    pass            # a rejected merge is a legitimate outcome of a history step
            elif o == 4:
                SC.GroupAdditivityScheme(include=[scheme])
            elif o == 5:
                try:
                    other.Update(donor)
                except ReadOnlyDataError:
                    pass
            elif o == 6:
                other.Update(conflicting, overwrite=True)
        # ---- probes -------------------------------------------------------------------------------------
        if dict(d0) != EXPECT['M0']:
            return finish(False, 'an earlier decomposition result was changed by later operations')
        est = L.Estimate(d0, 'thermochem')
        s_el = est.get_SoR(T, S_elements=True)
        want = DATA['C(H)'][1] - _sel('M0')
        if abs(s_el - want) > 1e-9:
            return finish(False, 'estimate-after-decomposing-another-molecule: S/R with the elemental reference is %r, for this '
                          'molecule it is %r' % (s_el, want), [OPS[o] for o in ops])
        if abs(est.get_HoRT(T) - DATA['C(H)'][0]) > 1e-12 or abs(est.get_SoR(T) - DATA['C(H)'][1]) > 1e-12:
            return finish(False, 'estimate values depend on history')
        if dict(last_m0) != EXPECT['M0']:
            return finish(False, 'a repeated decomposition of the same molecule differs from the first')
        est2 = L.Estimate(last_m0, 'thermochem')
        s_el2 = est2.get_SoR(T, S_elements=True)
        if abs(s_el2 - want) > 1e-9 or abs(est2.get_HoRT(T) - DATA['C(H)'][0]) > 1e-12:
            return finish(False, 'estimate-from-a-repeated-decomposition: S/R with the elemental reference is %r, for this '
                          'molecule it is %r' % (s_el2, want), [OPS[o] for o in ops])
        if dict(L.GetDescriptors('M1')) != EXPECT['M1']:
            return finish(False, 'a new decomposition depends on history')
        for g in DATA:
            c = L[g]['thermochem']
            if (c.ND_H_ref, c.ND_S_ref) != DATA[g] or c.ND_Cp_data:
                return finish(False, 'library data were altered by the history')
        fresh = SC.GroupAdditivityScheme()
        if fresh.patterns or fresh.remaps or fresh.other_descriptors or fresh.pretreatment_rules:
            return finish(False, 'default-arguments: a scheme constructed with default arguments is not empty after another scheme '
                          'was constructed with include=', [OPS[o] for o in ops])
    except Exception as e:
        return finish(False, 'raised:%s' % type(e).__name__, [OPS[o] for o in ops])
    finally:
        SC.Chem, gd.Chem = saved
        # undo what the history may have left in the function defaults, so that paths do not influence each other
        for dflt in SC.GroupAdditivityScheme.__init__.__defaults__:
            if isinstance(dflt, list):
                del dflt[:]
            elif isinstance(dflt, dict):
                dflt.clear()
    return finish(True, 'ok')


def signature(ob, param, ret):
    st = str(ret[1]) if len(ret) > 1 else ''
    return 'history:%s' % st.split(':')[0]


def obligations(tier, seed):
    q = tier == 'quick'
    to = 200 if q else 3000
    k = 4 if q else 5
    obs = []
    for o0 in range(len(OPS)):
        obs.append(dict(name='history_k%d_first%d' % (k, o0), func='h_history', param=dict(k=k, fix=dict(op0=o0)), timeout=to))
    return obs


def validate(tier, seed):
    """API-level (real RDKit, real BensonGA): an estimate made from an earlier decomposition after another molecule was
    decomposed must report its own molecule's elemental entropy."""
    import warnings
    warnings.simplefilter('ignore')
    import pgradd.ThermoChem  # noqa: F401
    from pgradd.GroupAdd.Library import GroupLibrary
    lib = GroupLibrary.Load('BensonGA')
    d_eth = lib.GetDescriptors('CC')
    ref = lib.Estimate(d_eth, 'thermochem').get_SoR(298.15, S_elements=True)
    lib.GetDescriptors('CCCO')
    got = lib.Estimate(d_eth, 'thermochem').get_SoR(298.15, S_elements=True)
    entry = dict(name='BensonGA: estimate for ethane after decomposing another molecule (real RDKit)', ok=True, n=1,
                 detail='S/R(elements) first=%r after=%r' % (ref, got))
    if abs(ref - got) > 1e-9:
        entry['violation'] = [False, 'estimate-after-decomposing-another-molecule', {'first': ref, 'after': got}]
        entry['func'] = 'concrete'
    return [entry]
