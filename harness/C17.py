"""C17 - a generated network is the duplicate-free closure of its seeds (DESIGN 4/C17)."""
from vf.symkit import PARAM, REPLAY, B, begin, choose, finish, skip

import pgradd.RDkitWrapper.GenRxnNet as G

PROPERTY = 'C17'
FUNCTIONS_ENCODED = ['pgradd.RDkitWrapper.GenRxnNet:GenerateRxnNet']
BOUNDS = {
    'quick': 'n = 3 abstract species, 1 unimolecular rule with <= 2 products per species (targets symbolic), symbolic '
             'over-valence flag per species, 1 seed; n = 2 with 2 rules (1 product each) and 2 seeds; n = 3 with 2 rules (1 product each) and 1 seed; '
             'species sizes in {1,2} (all 3 + 7 non-uniform size vectors) with symbolic containment for n = 2 (2 rules, 2 seeds) and n = 3 (1 rule, 2 seeds)',
    'thorough': 'additionally n = 2 species, 2 rules, 2 seeds, 2 products each; n = 4 species, 1 rule, 1 product; n = 3 species, '
                '2 rules, 2 seeds, 1 product (the size/containment obligations are those of the quick tier: 3 species with 2 rules, 2 seeds '
                'and non-uniform sizes did not close within the budget and are outside the claim)',
}
STUBS = ['fake Chem/PeriodicTable in GenRxnNet: species are abstract ids with an atom count (1..2, concrete per obligation) and a '
         'symbolic proper-substructure relation between species of different size; GetSubstructMatch(q) returns one atom per '
         'query atom when q is the species itself or contained in it; '
         'a rule is a symbolic successor relation; valence filter = symbolic flag per species',
         'Fuel: more than (n+2)*rules*4 rule applications = candidate non-termination']
ASSUMPTIONS = ["RDKit's duplicate test (equal atom count and full substructure match) is species identity",
               'distinct abstract species are pairwise non-isomorphic; a species can only be contained in a strictly larger one',
               'unimolecular rules only']
OUTSIDE = ['bimolecular rules', 'RDKit sanitisation / hydrogen handling / SMARTS semantics']
REALISED = ['successor targets and seed ids (solver-enumerated choices)']


class Fuel(Exception):
    pass


class _Atom(object):
    def __init__(self, over):
        self.over = over

    def SetNoImplicit(self, v):
        pass

    def UpdatePropertyCache(self, strict=True):
        pass

    def GetAtomicNum(self):
        return 6

    def GetTotalValence(self):
        return 5 if self.over else 4


class _Sp(object):
    def __init__(self, world, i):
        self.w, self.i = world, i

    def GetAtoms(self):
        return [_Atom(self.w.over(self.i))] + [_Atom(False) for _ in range(self.w.size(self.i) - 1)]

    def GetNumAtoms(self):
        return self.w.size(self.i)

    def GetSubstructMatch(self, other):
        # a match lists one atom of self per atom of the query: the species itself, or a strictly smaller species that
        # the (symbolic) containment relation places inside this one
        if self.i == other.i or self.w.contains(self.i, other.i):
            return tuple(range(self.w.size(other.i)))
        return ()


class _PT(object):
    @staticmethod
    def GetDefaultValence(table, z):
        return 4


class _Chem(object):
    @staticmethod
    def AddHs(m):
        return m

    @staticmethod
    def RemoveHs(m, sanitize=True):
        return m

    @staticmethod
    def AssignRadicals(m):
        pass

    @staticmethod
    def SanitizeMol(m, *a, **k):
        pass

    class rdmolops(object):
        class SanitizeFlags(object):
            SANITIZE_ADJUSTHS = SANITIZE_CLEANUP = SANITIZE_CLEANUPCHIRALITY = SANITIZE_FINDRADICALS = 0
            SANITIZE_KEKULIZE = SANITIZE_PROPERTIES = SANITIZE_SETCONJUGATION = SANITIZE_SETHYBRIDIZATION = 0
            SANITIZE_SYMMRINGS = 0


class _World(object):
    """Lazily created symbolic successor relation and over-valence flags."""

    def __init__(self, n, nrules, width):
        self.n, self.nrules, self.width = n, nrules, width
        self._succ, self._over, self._sub = {}, {}, {}
        self.sizes = list(PARAM.get('sizes') or [1] * n)    # atoms per species (concrete per obligation)
        self.applications = 0

    def size(self, i):
        return self.sizes[i]

    def contains(self, i, j):
        """species j is a proper substructure of species i: possible only when j is strictly smaller (distinct abstract
        species are pairwise non-isomorphic); otherwise a lazily created symbolic flag"""
        if self.sizes[j] >= self.sizes[i]:
            return False
        if (i, j) not in self._sub:
            self._sub[(i, j)] = bool(B('sub_%d_%d' % (i, j)))
        return self._sub[(i, j)]

    def over(self, i):
        if i not in self._over:
            self._over[i] = bool(B('over%d' % i))
        return self._over[i]

    def succ(self, r, i):
        if (r, i) not in self._succ:
            out = []
            for s in range(self.width):
                fixed = PARAM.get('fix', {}).get('r%d_s%d_p%d' % (r, i, s))
                # part of the space is split over parallel obligations by fixing species 0's products
                t = fixed if fixed is not None else choose('r%d_s%d_p%d' % (r, i, s), self.n + 1)
                if t < self.n:
                    out.append(t)
            self._succ[(r, i)] = out
        return self._succ[(r, i)]


class _Rule(object):
    def __init__(self, world, r):
        self.w, self.r = world, r

    def GetNumReactantTemplates(self):
        return 1

    def RunReactants(self, reactants):
        self.w.applications += 1
        if self.w.applications > (self.w.n + 2) * self.w.nrules * 4:
            raise Fuel()
        (m,) = reactants
        return tuple((_Sp(self.w, t),) for t in self.w.succ(self.r, m.i))


def h_closure(d: bool):
    """
    post: _[0]
    """
    begin()
    n, nrules, nseeds, width = PARAM.get('n', 3), PARAM.get('rules', 1), PARAM.get('seeds', 1), PARAM.get('width', 2)
    w = _World(n, nrules, width)
    seeds = [0] if nseeds == 1 else [0, choose('seed1', n)]
    if nseeds == 2 and seeds[1] == 0:
        return skip()               # seeds are distinct species
    saved = (G.Chem, G.PeriodicTable, G.GetPeriodicTable)
    G.Chem, G.PeriodicTable, G.GetPeriodicTable = _Chem, _PT, (lambda: None)
    status = 'ok'
    try:
        out = G.GenerateRxnNet([_Sp(w, i) for i in seeds], [_Rule(w, r) for r in range(nrules)])
        got = [m.i for m in out]
    except Fuel:
        return finish(False, 'fuel exhausted: generation does not terminate on a finite closure')
    except Exception as e:
        return finish(False, 'raised:' + type(e).__name__)
    finally:
        G.Chem, G.PeriodicTable, G.GetPeriodicTable = saved
    # independent closure: breadth-first over non-over-valent products
    want, frontier = list(seeds), list(seeds)
    while frontier:
        nxt = []
        for i in frontier:
            for r in range(nrules):
                for t in w.succ(r, i):
                    if not w.over(t) and t not in want:
                        want.append(t)
                        nxt.append(t)
        frontier = nxt
    if len(set(got)) != len(got):
        return finish(False, 'a species is listed twice', got)
    if set(got) != set(want):
        return finish(False, 'returned set differs from the closure', got, sorted(want))
    return finish(True, status, got)


def signature(ob, param, ret):
    return 'closure:%s' % (ret[1] if len(ret) > 1 else '')


def _split(name, base, n, to):
    """one obligation per concrete choice of rule 0 / species 0's two products (the rest stays symbolic)"""
    obs = []
    for a in range(n + 1):
        for b in range(n + 1):
            p = dict(base)
            p['fix'] = {'r0_s0_p0': a, 'r0_s0_p1': b}
            obs.append(dict(name='%s_fix%d%d' % (name, a, b), func='h_closure', param=p, timeout=to))
    return obs


def _split1(name, base, n, to):
    obs = []
    for a in range(n + 1):
        p = dict(base)
        p['fix'] = {'r0_s0_p0': a}
        obs.append(dict(name='%s_fix%d' % (name, a), func='h_closure', param=p, timeout=to))
    return obs


def _split2(name, base, n, to):
    """split over the first product of species 0 under rule 0 and under rule 1"""
    obs = []
    for a in range(n + 1):
        for b in range(n + 1):
            p = dict(base)
            p['fix'] = {'r0_s0_p0': a, 'r1_s0_p0': b}
            obs.append(dict(name='%s_fix%d%d' % (name, a, b), func='h_closure', param=p, timeout=to))
    return obs


def obligations(tier, seed):
    q = tier == 'quick'
    to = 200 if q else 1500
    obs = _split('closure_n3_r1', dict(n=3, rules=1, seeds=1, width=2), 3, to)
    obs.append(dict(name='closure_n2_r2_s2_w1', func='h_closure', param=dict(n=2, rules=2, seeds=2, width=1), timeout=to))
    # two rules, one seed: the same new species can be produced by both rules from one reactant
    obs += _split1('closure_n3_r2_s1_w1', dict(n=3, rules=2, seeds=1, width=1), 3, to)
    # species of different sizes with a symbolic containment relation (one species a substructure of another): the
    # duplicate test must still be identity, for seeds as well as for products
    import itertools
    for sz in itertools.product((1, 2), repeat=2):
        if sz != (1, 1):
            obs.append(dict(name='closure_sub_n2_r2_s2_w1_z%d%d' % sz, func='h_closure',
                            param=dict(n=2, rules=2, seeds=2, width=1, sizes=list(sz)), timeout=to))
    for sz in itertools.product((1, 2), repeat=3):
        if sz != (1, 1, 1):
            obs.append(dict(name='closure_sub_n3_r1_s2_w1_z%d%d%d' % sz, func='h_closure',
                            param=dict(n=3, rules=1, seeds=2, width=1, sizes=list(sz)), timeout=to))
    if not q:
        obs += _split('closure_n2_r2_s2', dict(n=2, rules=2, seeds=2, width=2), 2, to)
        obs += _split1('closure_n4_r1_w1', dict(n=4, rules=1, seeds=1, width=1), 4, to)
        obs += _split2('closure_n3_r2_s2_w1', dict(n=3, rules=2, seeds=2, width=1), 3, to)
    return obs


def validate(tier, seed):
    """Fake contract vs RDKit: the duplicate test used by GenerateRxnNet is species identity on small molecules, and
    the real function on ethane with C-H and C-C scission terminates with distinct species."""
    from rdkit import Chem
    smis = ['C', 'CC', '[CH3]', 'C=C', '[H]', 'CO']
    mols = [Chem.AddHs(Chem.MolFromSmiles(s)) for s in smis]
    ok = True
    for a in range(len(mols)):
        for b in range(len(mols)):
            same = mols[a].GetNumAtoms() == mols[b].GetNumAtoms() and \
                mols[a].GetNumAtoms() == len(mols[a].GetSubstructMatch(mols[b]))
            if same != (a == b):
                ok = False
    res = [dict(name='duplicate test (atom count + full substructure match) = identity on 6 molecules', ok=ok, n=36,
                detail='')]
    import pgradd.RDkitWrapper.GenRxnNet as RG
    out = RG.GenerateRxnNet('CC', ['[C:1][H:2]>>[C:1].[H:2]', '[C:1][C:2]>>[C:1].[C:2]'])
    can = [Chem.MolToSmiles(m) for m in out]
    entry = dict(name='real GenerateRxnNet on ethane (C-H and C-C scission): no species twice', ok=True, n=1,
                 detail='%d species, %d distinct: %r' % (len(can), len(set(can)), sorted(can)))
    if len(set(can)) != len(can):
        entry['violation'] = [False, 'a species is listed twice', {'smiles': 'CC', 'species': sorted(can)}]
        entry['func'] = 'concrete'
    res.append(entry)
    return res
