"""C01 - an estimate is the exact count-weighted sum of group contributions (DESIGN 4/C01)."""
import warnings

from vf.symkit import PARAM, REPLAY, NoTracing, R, B, all_close, begin, close, finish, skip
from vf.stubs import thermo as th  # noqa: F401  (imports pgradd outside tracing)

import pgradd.GroupAdd.Library as _L
from pgradd.Error import GroupMissingDataError, IncompleteDataError

warnings.simplefilter('ignore')

PROPERTY = 'C01'
FUNCTIONS_ENCODED = [
    'pgradd.GroupAdd.Library:GroupLibrary.Estimate',
    'pgradd.GroupAdd.Library:GroupLibrary.__getitem__',
    'pgradd.ThermoChem.group_data:ThermochemGroupAdditive.__init__',
    'pgradd.ThermoChem.group_data:ThermochemGroupAdditive.get_CpoR',
    'pgradd.ThermoChem.group_data:ThermochemGroupAdditive.get_HoRT',
    'pgradd.ThermoChem.group_data:ThermochemGroupAdditive.get_SoR',
    'pgradd.ThermoChem.base:ThermochemBase.get_GoRT',
    'pgradd.ThermoChem.incomplete:ThermochemIncomplete.get_HoRT',
    'pgradd.ThermoChem.incomplete:ThermochemIncomplete.get_SoR',
    'pgradd.ThermoChem.incomplete:ThermochemIncomplete.get_CpoR',
    'pgradd.Error:GroupMissingDataError.__init__',
]
# est_twice: the same library object asked twice (history inside one library, see also C15)
LIBS = ['BensonGA', 'GRWAqueous2018', 'GRWSurface2018', 'GuSolventGA2017Aq', 'GuSolventGA2017Vac', 'PPY',
        'PtSurface2023', 'SalciccioliGA2012', 'XieGA2022']
BOUNDS = {
    'quick': 'synthetic libraries of <= 3 descriptors (symbolic presence / property-set presence / per-property data flags, '
             'symbolic real counts and contribution values, symbolic ranges); real ThermochemIncomplete constituents <= 2; '
             'each of the 9 shipped libraries: the whole count vector over every group with data symbolic at 2 temperatures',
    'thorough': 'synthetic libraries of <= 4 descriptors; ThermochemIncomplete constituents <= 3; shipped libraries at 6 '
                'temperatures',
}
STUBS = ['shipped constituents evaluated outside the tracer (concrete T in, concrete value out)', 'stub correlation objects (fresh symbolic value per property) in est_stub',
         'warnings.warn recorder in est_incomplete']
ASSUMPTIONS = ['float := real; summation order/rounding outside the claim',
               'non-empty range intersection (an empty one trips an assert in ThermochemBase.__init__)',
               'shipped libraries: T concrete (symbolic T through the real splines is C05), counts symbolic reals']
OUTSIDE = ['float summation order', 'symbolic T through real FITPACK splines']
REALISED = []


class _Corr(object):
    def __init__(self, i, simple=False):
        self.v = dict(get_CpoR=R('cp%d' % i), get_HoRT=R('h%d' % i), get_SoR=R('s%d' % i))
        if simple:
            self.missing = dict(get_CpoR=False, get_HoRT=False, get_SoR=False)
            self.rng = None
        else:
            self.missing = dict(get_CpoR=B('nocp%d' % i), get_HoRT=B('noh%d' % i), get_SoR=B('nos%d' % i))
            if PARAM.get('ranges', True):
                self.rng = None if B('norange%d' % i) else (R('lo%d' % i), R('hi%d' % i))
            else:
                self.rng = None     # range intersection is C06's subject

    def get_range(self):
        return self.rng

    def _get(self, name, T):
        if self.missing[name]:
            raise IncompleteDataError(name)
        return self.v[name]

    def get_CpoR(self, T):
        return self._get('get_CpoR', T)

    def get_HoRT(self, T):
        return self._get('get_HoRT', T)

    def get_SoR(self, T):
        return self._get('get_SoR', T)


def h_est_stub(d: bool):
    """
    post: _[0]
    """
    begin()
    n = PARAM.get('n', 3)
    mode = PARAM.get('mode', 'both')
    names = ['g%d' % i for i in range(n)]
    contents, corrs, lacking = {}, {}, []
    for i, g in enumerate(names):
        if mode == 'values':
            kind = 0
        else:
            kind = 0 if B('present%d' % i) else (1 if B('emptyentry%d' % i) else 2)
        if kind == 0:
            corrs[g] = _Corr(i, simple=(mode == 'missing'))
            contents[g] = {'thermochem': corrs[g]}
        elif kind == 1:
            contents[g] = {'other': 1}
            lacking.append(g)
        else:
            lacking.append(g)
    # range intersection must be non-empty (assumption)
    los = [c.rng[0] for c in corrs.values() if c.rng is not None]
    his = [c.rng[1] for c in corrs.values() if c.rng is not None]
    for c in corrs.values():
        if c.rng is not None and not (c.rng[0] <= c.rng[1]):
            return skip()
    if los and not (th.smax(los) <= th.smin(his)):
        return skip()
    lib = _L.GroupLibrary(None, contents)
    counts = dict((g, R('n%d' % i)) for i, g in enumerate(names))
    T = R('T')
    status = 'ok'
    try:
        est = lib.Estimate(counts, 'thermochem')
        if lacking:
            return finish(False, 'estimate returned although descriptors lack the property set')
    except GroupMissingDataError as e:
        ok = bool(lacking) and list(e.groups) == lacking and e.property_set_name == 'thermochem'
        return finish(ok, 'missing-data error names %r, expected %r' % (list(e.groups), lacking))
    except Exception as e:
        return finish(False, 'raised:' + type(e).__name__)
    ok = True
    for getter in ('get_CpoR', 'get_HoRT', 'get_SoR', 'get_GoRT'):
        parts = ['get_HoRT', 'get_SoR'] if getter == 'get_GoRT' else [getter]
        must_raise = any(corrs[g].missing[p] for g in names for p in parts)
        try:
            v = getattr(est, getter)(T)
            if must_raise:
                ok, status = False, '%s returned a partial sum' % getter
                continue
            want = 0
            for g in reversed(names):
                if getter == 'get_GoRT':
                    want = want + counts[g] * (corrs[g].v['get_HoRT'] - corrs[g].v['get_SoR'])
                else:
                    want = want + counts[g] * corrs[g].v[getter]
            if not close(v, want):
                ok, status = False, '%s is not the count-weighted sum' % getter
        except IncompleteDataError:
            if not must_raise:
                ok, status = False, '%s raised incomplete-data without cause' % getter
        except Exception as e:
            ok, status = False, '%s raised:%s' % (getter, type(e).__name__)
    return finish(ok, status)


def h_est_incomplete(d: bool):
    """
    post: _[0]
    """
    begin()
    import pgradd.ThermoChem.incomplete  # noqa: F401
    m = th.install()
    n = PARAM.get('n', 2)
    names = ['g%d' % i for i in range(n)]
    Tref = R('Tref')
    contents, H, S = {}, {}, {}
    for i, g in enumerate(names):
        H[g] = R('h%d' % i) if B('hasH%d' % i) else None
        S[g] = R('s%d' % i) if B('hasS%d' % i) else None
        contents[g] = {'thermochem': m['inc'].ThermochemIncomplete(H[g], S[g], {}, Tref, None)}
    lib = _L.GroupLibrary(None, contents)
    counts = dict((g, R('n%d' % i)) for i, g in enumerate(names))
    T = R('T')
    ok, status = True, 'ok'
    try:
        est = lib.Estimate(counts, 'thermochem')
    except Exception as e:
        return finish(False, 'raised:' + type(e).__name__)
    for getter, tab in (('get_HoRT', H), ('get_SoR', S), ('get_CpoR', None)):
        must_raise = True if tab is None else any(tab[g] is None for g in names)
        try:
            v = getattr(est, getter)(T)
            if must_raise:
                ok, status = False, '%s returned a partial sum' % getter
                continue
            want = 0
            for g in reversed(names):
                want = want + counts[g] * tab[g]
            if not close(v, want):
                ok, status = False, '%s is not the count-weighted sum' % getter
        except IncompleteDataError:
            if not must_raise:
                ok, status = False, '%s raised incomplete-data without cause' % getter
        except Exception as e:
            ok, status = False, '%s raised:%s' % (getter, type(e).__name__)
    return finish(ok, status)


def h_est_twice(d: bool):
    """
    post: _[0]
    """
    begin()
    # two estimates from the SAME library object with the same descriptors and different counts (and a third library
    # call in between): each must be the sum with ITS OWN counts - nothing may be remembered between calls
    n = PARAM.get('n', 2)
    names = ['g%d' % i for i in range(n)]
    corrs = dict((g, _Corr(i, simple=True)) for i, g in enumerate(names))
    lib = _L.GroupLibrary(None, dict((g, {'thermochem': corrs[g]}) for g in names))
    c1 = dict((g, R('a%d' % i)) for i, g in enumerate(names))
    c2 = dict((g, R('b%d' % i)) for i, g in enumerate(names))
    T = R('T')
    try:
        e1 = lib.Estimate(c1, 'thermochem')
        v1 = e1.get_HoRT(T)
        e2 = lib.Estimate(c2, 'thermochem')
        v2 = e2.get_HoRT(T)
        v1b = e1.get_SoR(T)
    except Exception as e:
        return finish(False, 'raised:' + type(e).__name__)
    w1 = w2 = w1b = 0
    for g in reversed(names):
        w1 = w1 + c1[g] * corrs[g].v['get_HoRT']
        w2 = w2 + c2[g] * corrs[g].v['get_HoRT']
        w1b = w1b + c1[g] * corrs[g].v['get_SoR']
    ok, lab = all_close([(v1, w1), (v2, w2), (v1b, w1b)],
                        ['first estimate', 'second estimate on the same library is not the sum with its own counts',
                         'first estimate changed after the second was made'])
    return finish(ok, lab)


_LIB_CACHE = {}


class _Untraced(object):
    """A shipped group's own correlation, evaluated by the real code outside the tracer: its inputs
    are concrete (T), so nothing symbolic is lost; tracing FITPACK's Python layers 200 times per
    path is what made a single path exceed the budget."""

    def __init__(self, real):
        self._real = real

    def get_range(self):
        return self._real.get_range()

    def _call(self, name, T):
        with NoTracing():
            with warnings.catch_warnings():
                warnings.simplefilter('ignore')
                return float(getattr(self._real, name)(T))

    def get_CpoR(self, T):
        return self._call('get_CpoR', T)

    def get_HoRT(self, T):
        return self._call('get_HoRT', T)

    def get_SoR(self, T, S_elements=None):
        return self._call('get_SoR', T)


def _load(libname):
    """Concrete, outside tracing (module import of this harness in the CrossHair process)."""
    if libname not in _LIB_CACHE:
        import pgradd.ThermoChem  # noqa: F401
        lib = _L.GroupLibrary.Load(libname)
        groups = [g for g in lib if 'thermochem' in lib[g]]
        if REPLAY is None:
            for g in groups:
                lib.contents[g] = dict(lib.contents[g], thermochem=_Untraced(lib.contents[g]['thermochem']))
        _LIB_CACHE[libname] = (lib, groups)
    return _LIB_CACHE[libname]


def _own_value(corr, getter, T):
    with warnings.catch_warnings():
        warnings.simplefilter('ignore')
        try:
            return float(getattr(corr, getter)(T))
        except IncompleteDataError:
            return None


_PRE = None
if PARAM.get('lib'):
    # concrete, at module import (outside the tracer): the library and each group's OWN value of
    # the requested property at the concrete temperature, from the group's own real correlation
    _lib, _groups = _load(PARAM['lib'])
    _names = [str(g) for g in _groups]
    _own = [_own_value(getattr(_lib[g]['thermochem'], '_real', _lib[g]['thermochem']),
                       PARAM.get('getter', 'get_HoRT'), float(PARAM['T'])) for g in _groups]
    _PRE = (_lib, _names, _own)


def h_est_real_lib(d: bool):
    """
    post: _[0]
    """
    begin()
    th.install()        # NpShim in group_data: the uncertainty branch stores counts in a numpy array
    T = float(PARAM['T'])
    lib, names, own = _PRE
    getter = PARAM.get('getter', 'get_HoRT')
    idx = [i for i in range(len(names)) if PARAM.get('with_lacking') or own[i] is not None]
    if not idx:
        return skip()
    # descriptor -> count mapping keyed by descriptor name, as GetDescriptors returns it
    counts = {}
    cs = []
    for i in idx:
        c = R('n%d' % i)
        cs.append(c)
        counts[names[i]] = c
    must_raise = any(own[i] is None for i in idx)
    status = 'ok'
    try:
        est = lib.Estimate(counts, 'thermochem')
        v = getattr(est, getter)(T)
        if must_raise:
            return finish(False, 'partial sum returned although a descriptor lacks the property')
        want = 0
        for k in reversed(range(len(idx))):
            want = want + cs[k] * own[idx[k]]
        ok = close(v, want)
        if not ok:
            status = 'not the count-weighted sum'
    except IncompleteDataError:
        ok = must_raise
        status = 'incomplete'
    except Exception as e:
        ok, status = False, 'raised:' + type(e).__name__ + ':' + str(e)[:200]
    return finish(ok, status, len(idx))


def signature(ob, param, ret):
    return '%s:%s' % (ob.split('_n')[0].split(':')[0], ret[1] if len(ret) > 1 else '')


def obligations(tier, seed):
    q = tier == 'quick'
    to = 240 if q else 1800
    obs = []
    for n in (1, 2) if q else (1, 2, 3):
        obs.append(dict(name='est_stub_n%d' % n, func='h_est_stub', param=dict(n=n, mode='both'), timeout=to))
    for n in (3,) if q else (3, 4):
        obs.append(dict(name='est_stub_missing_n%d' % n, func='h_est_stub', param=dict(n=n, mode='missing'), timeout=to))
        obs.append(dict(name='est_stub_values_n%d' % n, func='h_est_stub', param=dict(n=n, mode='values', ranges=False), timeout=to))
    for n in (1, 2) if q else (1, 2, 3):
        obs.append(dict(name='est_twice_n%d' % n, func='h_est_twice', param=dict(n=n), timeout=to))
        obs.append(dict(name='est_incomplete_cp_n%d' % n, func='h_est_incomplete_cp', param=dict(n=n), timeout=to))
        obs.append(dict(name='est_incomplete_n%d' % n, func='h_est_incomplete', param=dict(n=n), timeout=to))
    temps = [298.15, 500.0] if q else [298.15, 300.0, 500.0, 1000.0]
    wide = ['GRWAqueous2018', 'GRWSurface2018', 'GuSolventGA2017Aq', 'GuSolventGA2017Vac', 'PtSurface2023']    # data from 100 to 1500 K
    import random
    rnd = random.Random(seed)
    for lib in LIBS:
        for T in (temps + ([100.0, 1500.0] if (not q and lib in wide) else [])):
            for g in ('get_CpoR', 'get_HoRT', 'get_SoR') if not q else (rnd.choice(['get_CpoR', 'get_HoRT', 'get_SoR']),):
                obs.append(dict(name='est_real_%s_T%g_%s' % (lib, T, g), func='h_est_real_lib',
                                param=dict(lib=lib, T=T, getter=g), timeout=to))
        obs.append(dict(name='est_real_%s_lacking' % lib, func='h_est_real_lib',
                        param=dict(lib=lib, T=298.15, getter='get_CpoR', with_lacking=True), timeout=to))
    return obs


def validate(tier, seed):
    return []


def h_est_incomplete_cp(d: bool):
    """
    post: _[0]
    """
    begin()
    # real ThermochemIncomplete constituents that HAVE heat-capacity data (one symbolic point) but may lack H_ref or S_ref:
    # the estimate must raise the incomplete-data error for the missing property, never return a partial sum
    from vf.stubs.numeric import PolySpline
    m = th.install()
    n = PARAM.get('n', 2)
    names = ['g%d' % i for i in range(n)]
    Tref = 298.15
    contents, H, S, CP = {}, {}, {}, {}
    th.patch_spline(None, record_only=True)
    for i, g in enumerate(names):
        H[g] = R('h%d' % i) if B('hasH%d' % i) else None
        S[g] = R('s%d' % i) if B('hasS%d' % i) else None
        CP[g] = R('cp%d' % i)
        contents[g] = {'thermochem': m['inc'].ThermochemIncomplete(H[g], S[g], {300.0: CP[g]}, Tref, (200.0, 400.0))}
    lib = _L.GroupLibrary(None, contents)
    counts = dict((g, R('n%d' % i)) for i, g in enumerate(names))
    try:
        est = lib.Estimate(counts, 'thermochem')
    except Exception as e:
        return finish(False, 'raised:' + type(e).__name__)
    ok, status = True, 'ok'
    for getter, tab in (('get_HoRT', H), ('get_SoR', S)):
        must_raise = any(tab[g] is None for g in names)
        try:
            v = getattr(est, getter)(Tref)
            if must_raise:
                ok, status = False, '%s returned a partial sum although a descriptor has no data for it' % getter
                continue
            want = 0
            for g in reversed(names):
                want = want + counts[g] * tab[g]
            okc, _ = all_close([(v, want)])
            if not okc:
                ok, status = False, '%s is not the count-weighted sum' % getter
        except IncompleteDataError:
            if not must_raise:
                ok, status = False, '%s raised incomplete-data without cause' % getter
        except Exception as e:
            ok, status = False, '%s raised:%s' % (getter, type(e).__name__)
    return finish(ok, status)
