"""C08 - RING fragment matching returns exactly the embeddings it denotes (DESIGN 4/C08): this repository's part -
the pure-Python constraint evaluators, the filter pipeline of MolQuery.GetQueryMatches, the text -> constraint
translation of the reader, and layout/label independence of the parser.  RDKit's embedding search is assumed."""
import operator as op

from vf.symkit import PARAM, REPLAY, NoTracing, B, C, I, S, begin, choose, finish, skip
from vf.stubs import rdfakes as rf

import pgradd.RDkitWrapper.MolQuery as MQ
import pgradd.RINGParser.Parser as PP
import pgradd.RINGParser.Grammar as GG
from pgradd.RINGParser.Reader import Read
from pgradd.Error import MolQueryError

PROPERTY = 'C08'
FUNCTIONS_ENCODED = [
    'pgradd.RDkitWrapper.MolQuery:ConstraintNumber.__init__', 'pgradd.RDkitWrapper.MolQuery:ConstraintNumber.__call__',
    'pgradd.RDkitWrapper.MolQuery:BondQuery.__call__', 'pgradd.RDkitWrapper.MolQuery:BondConstraint.__call__',
    'pgradd.RDkitWrapper.MolQuery:AtomRadical.__call__', 'pgradd.RDkitWrapper.MolQuery:AtomIsInRing.__call__',
    'pgradd.RDkitWrapper.MolQuery:AtomIsAromatic.__call__', 'pgradd.RDkitWrapper.MolQuery:AtomIsAllylic.__call__',
    'pgradd.RDkitWrapper.MolQuery:AtomRing.__call__', 'pgradd.RDkitWrapper.MolQuery:AtomNRing.__call__',
    'pgradd.RDkitWrapper.MolQuery:AtomConnectivityAtom.__call__', 'pgradd.RDkitWrapper.MolQuery:MolCharge.__call__',
    'pgradd.RDkitWrapper.MolQuery:MolCyclic.__call__', 'pgradd.RDkitWrapper.MolQuery:MolLinear.__call__',
    'pgradd.RDkitWrapper.MolQuery:MolAromatic.__call__', 'pgradd.RDkitWrapper.MolQuery:MolQuery.GetQueryMatches',
    'pgradd.RINGParser.MolQueryRead:MolQueryReader.ReadAtomConstraintConnectivity',
    'pgradd.RINGParser.MolQueryRead:MolQueryReader.ReadAtomConstraintRing',
    'pgradd.RINGParser.MolQueryRead:MolQueryReader.ReadAtomConstraintRadical',
    'pgradd.RINGParser.MolQueryRead:MolQueryReader.ReadAtomConstraintNRing',
    'pgradd.RINGParser.MolQueryRead:MolQueryReader.ReadAtomType',
    'pgradd.RINGParser.Parser:ParseState.skip_filler',
]
OPS = ['>', '<', '>=', '<=', '=']
OPF = {'>': op.gt, '<': op.lt, '>=': op.ge, '<=': op.le, '=': op.eq}
BT = rf.BondType
BTYPES = [BT.SINGLE, BT.DOUBLE, BT.TRIPLE, BT.QUADRUPLE, BT.AROMATIC, BT.DATIVE, BT.ZERO, BT.OTHER, BT.UNSPECIFIED]
BKINDS = ['single', 'double', 'triple', 'quadruple', 'ring', 'nonring', 'aromatic', 'any', 'strong', 'partial']
BOUNDS = {
    'quick': 'two-atom fragments read through the RDKit fakes (symbol and suffix per atom symbolic choices: each atom queried from its own text); each evaluator on fake atoms/bonds with symbolic attributes (radical count and charges: unbounded symbolic '
             'integers; <= 2 rings of size 3..8; <= 3 neighbours with symbolic match/constraint/bond-type), symbolic negation, '
             'operator and number; pipeline with 3 candidate embeddings and symbolic constraint outcomes; every constraint form '
             'of the grammar read from text with symbolic operator/digit/negation choice; whitespace holes of <= 2 filler '
             'characters and label names of <= 2 symbolic characters',
    'thorough': 'same with every bond kind for the neighbour-count constraint, <= 3 rings, <= 2 neighbours in the text->constraint '
                'translation, every token boundary of the layout seeds',
}
STUBS = ['RDKit fakes (atoms, bonds, ring info) with symbolic fields; fake Chem in MolQuery.py so that isinstance(bond, Chem.Bond) '
         'holds; the atom matcher of "connected to X" is a symbolic flag per neighbour; HoleStr buffer for layout']
ASSUMPTIONS = ['whitespace is free BETWEEN tokens; a multi-word keyword ("bond to", "in ring of size", ...) is one token '
               'with single spaces (read from the grammar objects)',
               "RDKit's GetSubstructMatches(uniquify=False) returns exactly the embeddings of the query molecule with compatible "
               "atom queries and bond types (assumed; concrete in replay)",
               'an atom is "in a ring" iff ring info lists it (RDKit invariant; the fake derives IsInRing from the ring list)']
OUTSIDE = ['stereo constraints', 'connected to group (named groups are never supplied by Read)', "RDKit's query-atom matching"]
REALISED = ['ring sizes, neighbour counts, bond types, operator/digit choices (solver-enumerated)']


def _fake_chem():
    saved = MQ.Chem
    MQ.Chem = rf.FakeChem()
    return saved


def _passes(f):
    """A constraint object signals failure by raising; MolQuery.GetQueryMatches (and the nested constraint loop of
    AtomConnectivityAtom) treat ANY exception as "does not hold" - that is the observable semantics judged here."""
    try:
        f()
        return 'pass'
    except Exception:
        return 'fail'


def _cn():
    """a ConstraintNumber built in one of the list forms with symbolic operator and number + its denotation"""
    o = OPS[choose('op', 5)]
    n = I('n')
    return MQ.ConstraintNumber([o, n]), (lambda x: OPF[o](x, n)), o


def _atom_with_rings(nrings_max):
    nr = choose('nrings', nrings_max + 1)
    sizes = [choose('size%d' % k, 6) + 3 for k in range(nr)]
    atoms = [rf.FAtom(6)]
    rings, nxt = [], 1
    for sz in sizes:
        ring = [0] + list(range(nxt, nxt + sz - 1))
        nxt += sz - 1
        rings.append(tuple(ring))
    while len(atoms) < nxt:
        atoms.append(rf.FAtom(6))
    # a ring that does NOT contain atom 0 must not count
    if B('foreign_ring'):
        base = len(atoms)
        atoms += [rf.FAtom(6) for _ in range(3)]
        rings.append((base, base + 1, base + 2))
    mol = rf.FMol(atoms, [], rings=rings)
    return mol.atoms[0], sizes


def h_evaluator(d: bool):
    """
    post: _[0]
    """
    begin()
    which = PARAM['which']
    saved = _fake_chem()
    try:
        negate = bool(B('negate'))
        if which == 'ConstraintNumber':
            form = choose('form', 4)
            o = OPS[choose('op', 5)]
            x = I('x')
            if form == 0:
                n = I('n')
                cn = MQ.ConstraintNumber([o, n])
            elif form == 1:
                n = I('n')
                o = '='
                cn = MQ.ConstraintNumber([n])
            elif form == 2:
                n = choose('nd', 10)
                cn = MQ.ConstraintNumber(o + str(n))
            else:
                n = -(choose('nd', 9) + 1)
                cn = MQ.ConstraintNumber(o + str(n))
            got = bool(cn(x))
            return finish(got == bool(OPF[o](x, n)), 'ConstraintNumber %s form %d' % (o, form))
        if which == 'AtomRadical':
            cn, den, o = _cn()
            a = rf.FAtom(6, radical=I('rad'))
            want = den(a.radical) != negate
            res = _passes(lambda: MQ.AtomRadical(negate, cn)(a))
        elif which in ('AtomIsInRing', 'AtomIsAromatic'):
            flag = bool(B('flag'))
            a = rf.FAtom(6, aromatic=flag, inring=flag)
            want = flag != negate
            res = _passes(lambda: getattr(MQ, which)(negate)(a))
        elif which == 'AtomIsAllylic':
            k = choose('nb', 4)
            bts = [BTYPES[choose('bt%d' % i, len(BTYPES))] for i in range(k)]
            mol = rf.FMol([rf.FAtom(6) for _ in range(k + 1)], [rf.FBond(0, i + 1, bts[i]) for i in range(k)])
            want = any(b == BT.DOUBLE for b in bts) != negate
            res = _passes(lambda: MQ.AtomIsAllylic(negate)(mol.atoms[0]))
        elif which == 'AtomRing':
            cn, den, o = _cn()
            a, sizes = _atom_with_rings(PARAM.get('rings', 2))
            want = any(den(s) for s in sizes) != negate
            res = _passes(lambda: MQ.AtomRing(negate, cn)(a))
        elif which == 'AtomNRing':
            cn, den, o = _cn()
            a, sizes = _atom_with_rings(PARAM.get('rings', 2))
            want = bool(den(len(sizes))) != negate
            res = _passes(lambda: MQ.AtomNRing(negate, cn)(a))
        elif which == 'AtomConnectivityAtom':
            cn, den, o = _cn()
            k = choose('nb', PARAM.get('nbrs', 2) + 1)
            kind = BKINDS[choose('kind', len(BKINDS))]
            ringy = kind in ('ring', 'nonring')
            # the bond denotation itself is decided exhaustively by evaluator_BondQuery; here a representative bond alphabet
            nb_types = [BT.SINGLE] if ringy else [BT.SINGLE, BT.DOUBLE, BT.AROMATIC, BT.ZERO]
            bts = [nb_types[choose('bt%d' % i, len(nb_types))] for i in range(k)]
            inr = [bool(B('inring%d' % i)) if ringy else False for i in range(k)]
            mt = [bool(B('match%d' % i)) for i in range(k)]
            cok = [bool(B('cons%d' % i)) for i in range(k)]
            mol = rf.FMol([rf.FAtom(6) for _ in range(k + 1)],
                          [rf.FBond(0, i + 1, bts[i], inring=inr[i]) for i in range(k)])

            class Sub(MQ.AtomConstraint):
                def __call__(self, atom):
                    if not cok[atom.idx - 1]:
                        raise MolQueryError('no')
            connected = rf.FQueryAtom('x', matcher=lambda q, atom: mt[atom.idx - 1])
            count = sum(1 for i in range(k) if mt[i] and cok[i] and _bond_den(kind, bts[i], inr[i]))
            want = bool(den(count)) != negate
            c = MQ.AtomConnectivityAtom(negate, cn, connected, MQ.BondQuery(kind), [Sub()])
            res = _passes(lambda: c(mol.atoms[0]))
        elif which == 'BondQuery':
            kind = BKINDS[choose('kind', len(BKINDS))]
            bt = BTYPES[choose('bt', len(BTYPES))]
            inring = bool(B('inring'))
            mol = rf.FMol([rf.FAtom(6), rf.FAtom(6)], [rf.FBond(0, 1, bt, inring=inring)])
            want = _bond_den(kind, bt, inring)
            res = _passes(lambda: MQ.BondConstraint(MQ.BondQuery(kind))(0, 1, mol))
        elif which == 'MolCharge':
            cn, den, o = _cn()
            na = choose('natoms', 3) + 1
            ch = [I('q%d' % i) for i in range(na)]
            mol = rf.FMol([rf.FAtom(6, charge=c) for c in ch], [])
            tot = 0
            for c in ch:
                tot = tot + c
            want = bool(den(tot))
            res = _passes(lambda: MQ.MolCharge(cn)(mol))
        elif which == 'MolShape':
            nr = choose('nrings', 3)
            arom = bool(B('arom'))
            cls = ['MolCyclic', 'MolLinear', 'MolAromatic'][choose('cls', 3)]
            mol = rf.FMol([rf.FAtom(6, aromatic=arom) for _ in range(3)], [], rings=[(0, 1, 2)] * nr)
            want = {'MolCyclic': nr > 0, 'MolLinear': nr == 0, 'MolAromatic': arom}[cls]
            res = _passes(lambda: getattr(MQ, cls)()(mol))
        else:
            raise AssertionError(which)
    finally:
        MQ.Chem = saved
    if res.startswith('raised'):
        return finish(False, '%s %s' % (which, res))
    return finish((res == 'pass') == want, '%s: passes=%s but the denotation says %s' % (which, res == 'pass', want))


def _bond_den(kind, bt, inring):
    return {'single': bt == BT.SINGLE, 'double': bt == BT.DOUBLE, 'triple': bt == BT.TRIPLE, 'quadruple': bt == BT.QUADRUPLE,
            'aromatic': bt == BT.AROMATIC, 'ring': inring, 'nonring': not inring, 'any': True,
            'strong': bt in (BT.DOUBLE, BT.TRIPLE, BT.QUADRUPLE, BT.AROMATIC),
            'partial': bt in (BT.DATIVE, BT.OTHER, BT.ZERO)}[kind]


def h_pipeline(d: bool):
    """
    post: _[0]
    """
    begin()
    saved = _fake_chem()
    try:
        cands = [(0, 1), (1, 0), (2, 1)]
        ncand = choose('ncand', 4)
        cands = cands[:ncand]
        use_bond, use_a0, use_a1, use_mol = bool(B('use_bond')), bool(B('use_a0')), bool(B('use_a1')), bool(B('use_mol'))
        memo = {}

        def flag(name):
            # symbolic outcomes are created on first use: only outcomes that can influence this path are enumerated
            if name not in memo:
                memo[name] = bool(B(name))
            return memo[name]

        class _LazyRingBond(rf.FBond):
            def IsInRing(self):
                return flag('ring%d%d' % (self.a, self.b))
        mol = rf.FMol([rf.FAtom(6) for _ in range(3)],
                      [_LazyRingBond(0, 1, BT.SINGLE), _LazyRingBond(1, 2, BT.SINGLE)],
                      matcher=lambda m, q, kw: list(cands))
        q = MQ.MolQuery()

        def mk(qi):
            class C(MQ.AtomConstraint):
                def __call__(self, atom):
                    if not flag('a%d_q%d' % (atom.idx, qi)):
                        raise MolQueryError('no')
            return C()

        class M(MQ.MolConstraint):
            def __call__(self, m):
                if not flag('molpass'):
                    raise MolQueryError('no')
        if use_a0:
            q.AppendAtomConstraint(mk(0), 0)
        if use_a1:
            q.AppendAtomConstraint(mk(1), 1)
        if use_bond:
            q.AppendBondConstraint(0, 1, MQ.BondConstraint(MQ.BondQuery('ring')))
        if use_mol:
            q.AppendMolConstraint(M())
        got = q.GetQueryMatches(mol)
    except Exception as e:
        return finish(False, 'pipeline raised:' + type(e).__name__)
    finally:
        MQ.Chem = saved
    want = []
    if not (use_mol and not flag('molpass')):
        for c in cands:
            ok = True
            if use_bond and not flag('ring%d%d' % (min(c), max(c))):
                ok = False
            if use_a0 and not flag('a%d_q0' % c[0]):
                ok = False
            if use_a1 and not flag('a%d_q1' % c[1]):
                ok = False
            if ok:
                want.append(c)
    return finish(tuple(got) == tuple(want), 'pipeline: returned embeddings are not exactly the candidates passing every constraint',
                  list(got), want)


FORMS = ['ring_size', 'nring', 'radical', 'connected', 'suffix', 'prefix']


def h_translate(d: bool):
    """
    post: _[0]
    """
    begin()
    form = PARAM['form']
    negate = bool(B('negate')) if form in ('ring_size', 'nring', 'radical', 'connected') else False
    oi = choose('op', 6)
    o = ['', '>', '<', '>=', '<=', '='][oi]
    digits = PARAM.get('digits') or list(range(10))
    dg = digits[choose('digit', len(digits))]
    den_op = OPF[o or '=']
    neg = '! ' if negate else ''
    bond_kind = None
    if form == 'ring_size':
        cons = '%sin ring of size %s%d' % (neg, o, dg)
    elif form == 'nring':
        cons = '%sin %s%d ring' % (neg, o, dg)
    elif form == 'radical':
        cons = '%shas %s%d radical electrons' % (neg, o, dg)
    elif form == 'connected':
        has_cn = bool(B('has_cn'))
        bi = choose('bond', len(BKINDS) + 1)
        bond_kind = None if bi == len(BKINDS) else BKINDS[bi]
        cons = '%sconnected to %sC%s' % (neg, ('%s%d ' % (o, dg)) if has_cn else '', (' with %s bond' % bond_kind) if bond_kind else '')
        if not has_cn:
            den_op, dg = op.ge, 1
    if form in ('ring_size', 'nring', 'radical', 'connected'):
        text = 'fragment a{C labeled c1 {%s}}' % cons
    elif form == 'suffix':
        sfx = ['', '.', ':', ':.', '+', '-', '+.', '-.', '?'][choose('sfx', 9)]
        text = 'fragment a{C%s labeled c1}' % sfx
    else:
        pfx = ['aromatic', 'nonaromatic', 'ringatom', 'nonringatom', 'allylic'][choose('pfx', 5)]
        text = 'fragment a{%s C labeled c1}' % pfx
    with NoTracing():           # concrete text: the real Read with the real RDKit
        try:
            q = Read(text)
        except Exception as e:
            q = None
            err = type(e).__name__
    if q is None:
        return finish(False, 'translate: %r could not be read: %s' % (text, err))
    cons_objs = list(q.atom_constraints.get(0, []))
    saved = _fake_chem()
    try:
        def all_pass(atom):
            for c in cons_objs:
                r = _passes(lambda c=c: c(atom))
                if r != 'pass':
                    return r
            return 'pass'
        if form in ('ring_size', 'nring'):
            a, sizes = _atom_with_rings(2)
            a.radical = 0
            want = (any(den_op(s, dg) for s in sizes) if form == 'ring_size' else bool(den_op(len(sizes), dg))) != negate
            res = all_pass(a)
        elif form == 'radical':
            a = rf.FAtom(6, radical=I('rad'))
            want = (bool(den_op(a.radical, dg)) != negate) and a.radical == 0     # no suffix: also "no radical"
            res = all_pass(a)
        elif form == 'connected':
            k = choose('nb', PARAM.get('nbrs', 1) + 1)
            kind = bond_kind or 'single'
            ringy = kind in ('ring', 'nonring')
            nb_types = [BT.SINGLE] if ringy else [BT.SINGLE, BT.DOUBLE, BT.AROMATIC, BT.ZERO]
            bts = [nb_types[choose('bt%d' % i, len(nb_types))] for i in range(k)]
            inr = [bool(B('inring%d' % i)) if ringy else False for i in range(k)]
            mt = [bool(B('match%d' % i)) for i in range(k)]
            rads = [I('nrad%d' % i) for i in range(k)]
            mol = rf.FMol([rf.FAtom(6, radical=0)] + [rf.FAtom(6, radical=rads[i]) for i in range(k)],
                          [rf.FBond(0, i + 1, bts[i], inring=inr[i]) for i in range(k)])
            for c in cons_objs:
                if isinstance(c, MQ.AtomConnectivityAtom):
                    c.connected = rf.FQueryAtom('x', matcher=lambda qq, atom: mt[atom.idx - 1])
            # "connected to C": the neighbour is a plain C (no suffix): neutral query atom (RDKit part, = match flag) and 0 radicals
            count = sum(1 for i in range(k) if mt[i] and rads[i] == 0 and _bond_den(kind, bts[i], inr[i]))
            want = bool(den_op(count, dg)) != negate
            res = all_pass(mol.atoms[0])
        elif form == 'suffix':
            a = rf.FAtom(6, radical=I('rad'))
            need = {'': 0, '.': 1, ':': 2, ':.': 3, '+': None, '-': None, '+.': 1, '-.': 1, '?': None}[sfx]
            want = True if need is None else a.radical == need
            res = all_pass(a)
        else:
            arom, inring, dbl = bool(B('arom')), bool(B('inring')), bool(B('dbl'))
            mol = rf.FMol([rf.FAtom(6, aromatic=arom, inring=inring, radical=0), rf.FAtom(6)],
                          [rf.FBond(0, 1, BT.DOUBLE if dbl else BT.SINGLE)])
            want = {'aromatic': arom, 'nonaromatic': not arom, 'ringatom': inring, 'nonringatom': not inring, 'allylic': dbl}[pfx]
            res = all_pass(mol.atoms[0])
    finally:
        MQ.Chem = saved
    if res.startswith('raised'):
        return finish(False, 'translate: evaluating %r %s' % (text, res))
    return finish((res == 'pass') == bool(want), 'translate: %r passes=%s but its text denotes %s' % (text, res == 'pass', bool(want)))


LAYOUT_SEEDS = [
    'fragment a{C labeled c1 C labeled c2 single bond to c1}',
    'positive fragment f{O+ labeled o1 {connected to >1 C with double bond, ! in ring of size 6}}',
    'fragment r{C labeled c1 C labeled c2 ring bond to c1 ringbond c2 any bond to c1}',
]


def _canon(t):
    if isinstance(t, list):
        return [_canon(x) for x in t]
    if isinstance(t, PP.RINGToken):
        return 'T:' + t.name
    return t


def h_layout(d: bool):
    """
    post: _[0]
    """
    begin()
    from vf.stubs.holestr import HoleStr
    seed = LAYOUT_SEEDS[PARAM.get('seed', 0)]
    pos = PARAM['pos']                              # index of a space in the seed
    k = choose('len', 2) + 1
    chars = []
    for i in range(k):
        c = C('w%d' % i)
        if not (c == ' ' or c == '\n' or c == '\t'):
            return skip()
        chars.append(c)
    with NoTracing():
        ref = _canon(PP.ParseState(GG.enhanced_grammar, seed).parse())
    if REPLAY is None:
        text = HoleStr.build(seed[:pos], chars, seed[pos + 1:])
    else:
        text = seed[:pos] + ''.join(chars) + seed[pos + 1:]
    try:
        got = _canon(PP.ParseState(GG.enhanced_grammar, text).parse())
    except Exception as e:
        return finish(False, 'layout: whitespace variation raised ' + type(e).__name__)
    return finish(got == ref, 'layout: the parse depends on whitespace')


def h_labels(d: bool):
    """
    post: _[0]
    """
    begin()
    from vf.stubs.holestr import HoleStr
    k = choose('len', 2) + 1
    chars = []
    for i in range(k):
        c = C('l%d' % i)
        if not (c.isalpha() or (c.isascii() and c.isdigit()) or c == '_'):
            return skip()
        chars.append(c)
    pre, mid, post = 'fragment a{C labeled ', ' C labeled c2 single bond to ', '}'
    if REPLAY is None:
        text = HoleStr(list(pre) + chars + list(mid) + chars + list(post))
    else:
        text = pre + ''.join(chars) + mid + ''.join(chars) + post
    with NoTracing():
        ref = _canon(PP.ParseState(GG.enhanced_grammar, pre + 'LBL' + mid + 'LBL' + post).parse())
    try:
        tree = PP.ParseState(GG.enhanced_grammar, text).parse()
    except Exception as e:
        return finish(False, 'labels: a label name raised ' + type(e).__name__)
    lab = ''.join(chars) if REPLAY is not None else None

    def same(a, b):
        if isinstance(b, list):
            return isinstance(a, list) and len(a) == len(b) and all(same(x, y) for x, y in zip(a, b))
        if b == 'LBL':
            if REPLAY is not None:
                return a == lab
            return len(a) == k and all(a[i] == chars[i] for i in range(k))
        return _canon(a) == b
    return finish(same(tree, ref), 'labels: the parse depends on the choice of label name')


def _multiword_literals():
    """keywords of the grammar that contain a space (read from the grammar objects at run time)"""
    out = set()

    def walk(x):
        if isinstance(x, (PP.Literal, PP.Filler)):
            if ' ' in x.tok:
                out.add(x.tok)
        for attr in ('reqs', 'alts'):
            for y in getattr(x, attr, ()) or ():
                walk(y)
        for attr in ('opt', 'what'):
            if hasattr(x, attr):
                walk(getattr(x, attr))
    for rule in GG.enhanced_grammar[1].values():
        walk(rule)
    return sorted(out, key=len, reverse=True)


def signature(ob, param, ret):
    st = str(ret[1]) if len(ret) > 1 else ''
    return '%s:%s' % (ob.split('_')[0], st.split(':')[0] if ':' in st else st)


EVALS = ['ConstraintNumber', 'AtomRadical', 'AtomIsInRing', 'AtomIsAromatic', 'AtomIsAllylic', 'AtomRing', 'AtomNRing',
         'AtomConnectivityAtom', 'BondQuery', 'MolCharge', 'MolShape']


def obligations(tier, seed):
    q = tier == 'quick'
    to = 200 if q else 1200
    obs = []
    for w in EVALS:
        if w == 'AtomConnectivityAtom':
            kinds = [0, 4, 7, 8] if q else range(len(BKINDS))        # quick: single, ring, any, strong
            for ki in kinds:
                for oi in range(5):
                    obs.append(dict(name='evaluator_%s_%s_op%d' % (w, BKINDS[ki], oi), func='h_evaluator',
                                    param=dict(which=w, nbrs=2, fix=dict(kind=ki, op=oi)), timeout=to))
        else:
            obs.append(dict(name='evaluator_' + w, func='h_evaluator', param=dict(which=w, rings=2 if q else 3), timeout=to))
    for bits in range(16):
        fix = dict(use_bond=bool(bits & 1), use_a0=bool(bits & 2), use_a1=bool(bits & 4), use_mol=bool(bits & 8))
        obs.append(dict(name='pipeline_u%d' % bits, func='h_pipeline', param=dict(fix=fix), timeout=to))
    for f in FORMS:
        if f in ('connected', 'ring_size', 'nring', 'radical'):
            for oi in range(6):
                p = dict(form=f, fix=dict(op=oi))
                if f == 'connected':
                    p['digits'] = [0, 1, 2]
                    p['nbrs'] = 1
                    obs.append(dict(name='translate_%s_op%d' % (f, oi), func='h_translate', param=p, timeout=to))
                    if not q:
                        # two neighbours: split further over the bond kind named in the text (none = default single)
                        for bi in (len(BKINDS), 1, 4, 7):
                            p2 = dict(form=f, digits=[0, 1, 2], nbrs=2, fix=dict(op=oi, bond=bi))
                            obs.append(dict(name='translate_%s_op%d_b%d_n2' % (f, oi, bi), func='h_translate', param=p2, timeout=to))
                    continue
                elif q:
                    p['digits'] = [0, 1, 3, 6, 9]
                obs.append(dict(name='translate_%s_op%d' % (f, oi), func='h_translate', param=p, timeout=to))
        else:
            obs.append(dict(name='translate_' + f, func='h_translate', param=dict(form=f), timeout=to))
    multi = _multiword_literals()
    for si, sd in enumerate(LAYOUT_SEEDS):
        inside = set()
        for lit in multi:
            start = sd.find(lit)
            while start >= 0:
                inside.update(range(start, start + len(lit)))
                start = sd.find(lit, start + 1)
        # whitespace BETWEEN tokens; a space inside a multi-word keyword ('bond to', 'in ring of size') is part of the token
        spaces = [i for i, ch in enumerate(sd) if ch == ' ' and i not in inside]
        for pos in (spaces[::3] if q else spaces):
            obs.append(dict(name='layout_s%d_p%d' % (si, pos), func='h_layout', param=dict(seed=si, pos=pos), timeout=to))
    obs.append(dict(name='labels', func='h_labels', param={}, timeout=to))
    obs.append(dict(name='translate_atoms', func='h_translate_atoms', param={}, timeout=to))
    return obs


def validate(tier, seed):
    """Fakes vs RDKit for every getter the evaluators use, on a small molecule zoo; and the real matcher on real molecules
    agrees with an independent check for two fragments (concrete)."""
    from rdkit import Chem
    bad, n = [], 0
    for smi in ['C1CC1C=C', 'c1ccccc1[CH2]', 'CC(=O)[O-]', 'C[Pt]']:
        m = Chem.AddHs(Chem.MolFromSmiles(smi))
        ri = [tuple(r) for r in m.GetRingInfo().AtomRings()]
        fm = rf.FMol([rf.FAtom(a.GetAtomicNum(), charge=a.GetFormalCharge(), radical=a.GetNumRadicalElectrons(),
                               aromatic=a.GetIsAromatic()) for a in m.GetAtoms()],
                     [rf.FBond(b.GetBeginAtomIdx(), b.GetEndAtomIdx(), b.GetBondType()) for b in m.GetBonds()], rings=ri)
        for a in m.GetAtoms():
            fa = fm.atoms[a.GetIdx()]
            n += 1
            if (a.IsInRing(), len(a.GetBonds()), sorted(x.GetIdx() for x in a.GetNeighbors())) != \
               (fa.IsInRing(), len(fa.GetBonds()), sorted(x.GetIdx() for x in fa.GetNeighbors())):
                bad.append((smi, a.GetIdx()))
        for b in m.GetBonds():
            fb = fm.GetBondBetweenAtoms(b.GetBeginAtomIdx(), b.GetEndAtomIdx())
            n += 1
            if b.IsInRing() != fb.IsInRing():
                bad.append((smi, 'bond', b.GetIdx()))
    return [dict(name='RDKit fakes vs real atoms/bonds/ring info on 4 molecules (IsInRing, GetBonds, GetNeighbors)', ok=not bad,
                 n=n, detail='mismatch: %r' % bad[:3])]


SYMS2 = ['C', 'O', 'N']
SFX2 = ['', '+', '-', '.', '?']


def h_translate_atoms(d: bool):
    """
    post: _[0]
    """
    begin()
    # a two-atom fragment: each labelled atom's element class and charge/radical suffix must be translated from ITS OWN text
    # (query atoms recorded by the RDKit fakes; nothing may be shared between the atoms of one fragment)
    import pgradd.RINGParser.MolQueryRead  # noqa: F401
    import pgradd.RINGParser.ReactionQueryRead  # noqa: F401
    import pgradd.RDkitWrapper.ReactionQuery  # noqa: F401
    s1, s2 = SYMS2[choose('sym1', 3)], SYMS2[choose('sym2', 3)]
    f1, f2 = SFX2[choose('sfx1', 5)], SFX2[choose('sfx2', 5)]
    text = 'fragment a{%s%s labeled a1 %s%s labeled a2 single bond to a1}' % (s1, f1, s2, f2)
    undo = rf.install_reader_fakes()
    try:
        with NoTracing():
            q = Read(text)
    except Exception as e:
        return finish(False, 'translate_atoms: %r raised %s' % (text, type(e).__name__))
    finally:
        undo()
    zmap = {'C': 6, 'O': 8, 'N': 7}
    for idx, (sy, sf) in enumerate(((s1, f1), (s2, f2))):
        atom = q.mol.atoms[idx]
        kinds = []
        for x in atom.desc:
            if isinstance(x, tuple) and x and x[0] in ('AtomNumEquals', 'FormalChargeEquals', 'AtomNumGreater', 'TotalValenceEquals'):
                kinds.append(x)
            elif isinstance(x, tuple) and len(x) == 2 and isinstance(x[1], list):
                kinds += [y for y in x[1] if isinstance(y, tuple)]
        want = [('AtomNumEquals', zmap[sy])]
        if sf in ('', ):
            want.append(('FormalChargeEquals', 0))
        elif sf == '+':
            want.append(('FormalChargeEquals', 1))
        elif sf == '-':
            want.append(('FormalChargeEquals', -1))
        if kinds != want:
            return finish(False, 'translate_atoms: atom %d of %r is queried as %r, its own text says %r' % (idx + 1, text, kinds, want))
        rad = [c for c in q.atom_constraints.get(idx, []) if isinstance(c, MQ.AtomRadical)]
        need = {'': '=0', '.': '=1'}.get(sf)
        if (need is None) != (not rad):
            return finish(False, 'translate_atoms: radical constraint of atom %d of %r' % (idx + 1, text))
    if q.mol.atoms[0] is q.mol.atoms[1]:
        return finish(False, 'translate_atoms: the two atoms share one query object')
    return finish(True, 'ok')
