"""C11 - incompatible quantities never combine; compatible ones act as numbers (DESIGN 4/C11)."""
import numpy as np

from vf.symkit import PARAM, REPLAY, R, begin, choose, finish, skip

import pgradd.Units.qty as Q
from pgradd.Error import UnitsError

Q.print = lambda *a, **k: None      # debug prints in FundamentalUnits.__eq__/__str__ (not the subject)
if REPLAY is None:
    # error messages render the quantity with str(): decimal rendering of a symbolic magnitude would be
    # realised value by value; messages are not the subject
    Q.GenericQuantity.__str__ = lambda self: '<quantity>'

PROPERTY = 'C11'
FUNCTIONS_ENCODED = [
    'pgradd.Units.qty:GenericQuantity.__eq__', 'pgradd.Units.qty:GenericQuantity.__ne__',
    'pgradd.Units.qty:GenericQuantity.__lt__', 'pgradd.Units.qty:GenericQuantity.__le__',
    'pgradd.Units.qty:GenericQuantity.__ge__', 'pgradd.Units.qty:GenericQuantity.__gt__',
    'pgradd.Units.qty:GenericQuantity.__add__', 'pgradd.Units.qty:GenericQuantity.__radd__',
    'pgradd.Units.qty:GenericQuantity.__sub__', 'pgradd.Units.qty:GenericQuantity.__rsub__',
    'pgradd.Units.qty:GenericQuantity.__mul__', 'pgradd.Units.qty:GenericQuantity.__rmul__',
    'pgradd.Units.qty:GenericQuantity.__div__', 'pgradd.Units.qty:GenericQuantity.__rdiv__',
    'pgradd.Units.qty:GenericQuantity.__pow__', 'pgradd.Units.qty:GenericQuantity.__neg__',
    'pgradd.Units.qty:GenericQuantity.__abs__', 'pgradd.Units.qty:GenericQuantity.in_units',
    'pgradd.Units.qty:GenericQuantity.has_units', 'pgradd.Units.qty:GenericQuantity._build',
    'pgradd.Units.qty:FundamentalUnits._build', 'pgradd.Units.qty:FundamentalUnits.__eq__',
    'pgradd.Units.qty:FundamentalUnits.__bool__', 'pgradd.Units.utils:is_zero',
]
# (name, exponents over m kg s A K mol cd)
DIMS = [
    ('m', (1, 0, 0, 0, 0, 0, 0)), ('kg', (0, 1, 0, 0, 0, 0, 0)), ('s', (0, 0, 1, 0, 0, 0, 0)),
    ('A', (0, 0, 0, 1, 0, 0, 0)), ('K', (0, 0, 0, 0, 1, 0, 0)), ('mol', (0, 0, 0, 0, 0, 1, 0)),
    ('cd', (0, 0, 0, 0, 0, 0, 1)),
    ('N', (1, 1, -2, 0, 0, 0, 0)), ('J', (2, 1, -2, 0, 0, 0, 0)), ('W', (2, 1, -3, 0, 0, 0, 0)),
    ('Pa', (-1, 1, -2, 0, 0, 0, 0)), ('Hz', (0, 0, -1, 0, 0, 0, 0)), ('m2', (2, 0, 0, 0, 0, 0, 0)),
    ('m/s', (1, 0, -1, 0, 0, 0, 0)), ('J/mol/K', (2, 1, -2, 0, -1, -1, 0)),
]
NUM = len(DIMS)            # index of "plain number" as the other operand
OPS = ['eq', 'ne', 'lt', 'le', 'gt', 'ge', 'add', 'sub', 'mul', 'div', 'in_units',
       'r_eq', 'r_ne', 'r_lt', 'r_le', 'r_gt', 'r_ge', 'r_add', 'r_sub', 'r_mul', 'r_div',
       'neg', 'abs', 'pow-1', 'pow1', 'pow2', 'pow3']
BOUNDS = {
    'quick': 'left operand: a quantity of each of %d dimensions (7 base, 8 derived); right operand: a quantity of each of '
             'the same dimensions or a plain number; %d operator forms incl. reflected ones; all magnitudes symbolic reals '
             '(so equal, negative and zero magnitudes are paths); the same dimension reached by power/quotient/product' % (len(DIMS), len(OPS)),
    'thorough': 'same, longer budget per obligation',
}
STUBS = ['print() in pgradd.Units.qty silenced', 'GenericQuantity.__str__ (used only in error messages) returns a constant']
ASSUMPTIONS = ['float := real', 'divisor magnitudes non-zero', 'exponents of ** from {-1,1,2,3} (x**0 is undefined at 0 in z3: unknown)',
               'dimension vectors are a finite configuration table (solver-enumerated choice), magnitudes are universal']
OUTSIDE = ['array quantities (numpy)', 'fractional powers', 'IEEE rounding']
REALISED = ['index of the right operand dimension and of the operator (solver-enumerated choices)']


def _units(exps):
    return Q.FundamentalUnits._build(np.array(exps, dtype=float))


def _mk(idx, val):
    if idx == NUM:
        return val
    return Q.Quantity(val, _units(DIMS[idx][1]))


def _is_qty(x):
    return isinstance(x, Q.GenericQuantity)


def _check_qty(res, val, exps):
    """res must be a Quantity with exactly these exponents and this magnitude; if all exponents are
    zero it must be a plain number instead."""
    if not any(exps):
        return (not _is_qty(res)) and res == val
    if not isinstance(res, Q.Quantity):
        return False
    got = [float(x) for x in res.units.exps]
    return got == [float(e) for e in exps] and res.value == val


def _run(f):
    try:
        return ('value', f())
    except UnitsError:
        return ('UnitsError', None)
    except Exception as e:
        return ('raised:' + type(e).__name__, None)


def h_ops(d: bool):
    """
    post: _[0]
    """
    begin()
    ia = PARAM['a']
    ops = PARAM.get('ops') or OPS
    ib = choose('b', NUM + 1)
    op = ops[choose('op', len(ops))]
    av, bv = R('av'), R('bv')
    ea = DIMS[ia][1]
    eb = DIMS[ib][1] if ib != NUM else (0,) * 7
    a, b = _mk(ia, av), _mk(ib, bv)
    same = (ib != NUM and tuple(ea) == tuple(eb))
    bare_zero = (ib == NUM and bv == 0)
    compatible = same or bare_zero
    refl = op.startswith('r_')
    base = op[2:] if refl else op
    x, y = (b, a) if refl else (a, b)
    xv, yv = (bv, av) if refl else (av, bv)
    ex, ey = (eb, ea) if refl else (ea, eb)
    status = 'ok'
    if base in ('eq', 'ne'):
        kind, res = _run(lambda: (x == y) if base == 'eq' else (x != y))
        want = ((xv == yv) if base == 'eq' else (xv != yv)) if compatible else (base == 'ne')
        ok = kind == 'value' and bool(res) == bool(want)
    elif base in ('lt', 'le', 'gt', 'ge'):
        fn = {'lt': lambda: x < y, 'le': lambda: x <= y, 'gt': lambda: x > y, 'ge': lambda: x >= y}[base]
        kind, res = _run(fn)
        if compatible:
            want = {'lt': xv < yv, 'le': xv <= yv, 'gt': xv > yv, 'ge': xv >= yv}[base]
            ok = kind == 'value' and bool(res) == bool(want)
        else:
            ok = kind == 'UnitsError'
    elif base in ('add', 'sub'):
        kind, res = _run((lambda: x + y) if base == 'add' else (lambda: x - y))
        if compatible:
            want = (xv + yv) if base == 'add' else (xv - yv)
            ok = kind == 'value' and _check_qty(res, want, ea)
        else:
            ok = kind == 'UnitsError'
    elif base == 'mul':
        kind, res = _run(lambda: x * y)
        ok = kind == 'value' and _check_qty(res, xv * yv, [p + q for p, q in zip(ex, ey)])
    elif base == 'div':
        if yv == 0:
            return skip()
        kind, res = _run(lambda: x / y)
        ok = kind == 'value' and _check_qty(res, xv / yv, [p - q for p, q in zip(ex, ey)])
    elif base == 'in_units':
        if bv == 0:
            return skip()
        kind, res = _run(lambda: a.in_units(b))
        if same:
            ok = kind == 'value' and (not _is_qty(res)) and res == av / bv
        else:
            ok = kind == 'UnitsError'
    elif base == 'neg':
        kind, res = _run(lambda: -a)
        ok = kind == 'value' and _check_qty(res, -av, ea)
    elif base == 'abs':
        kind, res = _run(lambda: abs(a))
        ok = kind == 'value' and _check_qty(res, av if av >= 0 else -av, ea)
    elif base.startswith('pow'):
        n = int(base[3:])
        if n < 0 and av == 0:
            return skip()
        kind, res = _run(lambda: a ** n)
        want = 1
        for _ in range(abs(n)):
            want = want * av
        if n < 0:
            want = 1 / want
        ok = kind == 'value' and _check_qty(res, want, [n * e for e in ea])
    else:
        raise AssertionError(op)
    status = '%s %s %s -> %s' % (DIMS[ia][0], op, DIMS[ib][0] if ib != NUM else 'number', kind)
    return finish(ok, status)


def signature(ob, param, ret):
    st = ret[1] if len(ret) > 1 else ''
    parts = st.split(' ')
    return 'ops:%s' % (parts[1] if len(parts) > 1 else st)


def obligations(tier, seed):
    q = tier == 'quick'
    to = 240 if q else 1200
    groups = [OPS[0:6], OPS[6:11], OPS[11:17], OPS[17:21], OPS[21:]]
    obs = []
    for ia in range(len(DIMS)):
        for gi, g in enumerate(groups):
            obs.append(dict(name='ops_%s_g%d' % (DIMS[ia][0].replace('/', '-'), gi), func='h_ops',
                            param=dict(a=ia, ops=g), timeout=to))
        obs.append(dict(name='derived_%s' % DIMS[ia][0].replace('/', '-'), func='h_derived', param=dict(a=ia), timeout=to))
    return obs


def validate(tier, seed):
    """Dimension table vs the repo's own unit parser (concrete)."""
    from pgradd.Units import eval_qty
    names = {'m2': 'm^2', 'Hz': '1/s'}
    bad = []
    for name, exps in DIMS:
        u = eval_qty(names.get(name, name)).units
        if [float(x) for x in u.exps] != [float(e) for e in exps]:
            bad.append(name)
    return [dict(name='dimension table vs eval_qty', ok=not bad, n=len(DIMS), detail='mismatch: %r' % bad)]


def h_derived(d: bool):
    """
    post: _[0]
    """
    begin()
    # the same dimension reached along different routes (power vs quotient vs product) is the SAME dimension
    ia = PARAM['a']
    av, bv = R('av'), R('bv')
    if av == 0 or bv == 0:
        return skip()
    a, b = _mk(ia, av), _mk(ia, bv)
    route = choose('route', 4)
    try:
        if route == 0:
            x, y, xv, yv = a ** -1, 1 / b, 1 / av, 1 / bv
        elif route == 1:
            x, y, xv, yv = (a * a) / a, b, av, bv
        elif route == 2:
            x, y, xv, yv = a ** 2, b * b, av * av, bv * bv
        else:
            x, y, xv, yv = (a ** -1) ** -1, b, av, bv
        eq, ne = (x == y), (x != y)
        if bool(eq) != bool(xv == yv) or bool(ne) != bool(xv != yv):
            return finish(False, 'derived: equality between equal dimensions reached along different routes (route %d, %s)' % (route, DIMS[ia][0]))
        if not x.has_units(y.units):
            return finish(False, 'derived: has_units is false for the same dimension (route %d, %s)' % (route, DIMS[ia][0]))
        ssum = x + y
        lt = x < y
        ok = isinstance(ssum, Q.Quantity) and ssum.value == xv + yv and bool(lt) == bool(xv < yv)
        return finish(ok, 'derived: sum/order between the same dimension reached along different routes (route %d)' % route)
    except UnitsError:
        return finish(False, 'derived: UnitsError between the same dimension reached along different routes (route %d, %s)' % (route, DIMS[ia][0]))
    except Exception as e:
        return finish(False, 'derived: raised ' + type(e).__name__)
