"""C03 - descriptors do not depend on how the molecule is written (DESIGN 4/C03): renumbering-equivariance of the
Python layer.  Everything RDKit does between the string and the graph is outside the claim."""
import itertools

from vf.symkit import PARAM, REPLAY, NoTracing, B, begin, choose, finish, skip
from vf.stubs import rdfakes as rf
import harness.C02 as K

PROPERTY = 'C03'
FUNCTIONS_ENCODED = K.FUNCTIONS_ENCODED
BOUNDS = {
    'quick': 'molecules of 3 atoms (symbolic adjacency, symbolic per-(pattern, atom) match flags, 2 patterns): every '
             'renumbering of the atoms and either order of presenting matches gives the same descriptors or the same '
             'failure; correction descriptors: a matched pair and its image under index shifts 1, 7, 8, 16 (thorough: every shift; indices < 24), matches '
             'reported in either order and either direction; a six-ring (single/double bonds symbolic per position) aromatised '
             'identically from every start atom and direction of its atom list',
    'thorough': '3 atoms x 3 patterns, all 6 renumberings; descriptor shifts from every start index',
}
STUBS = K.STUBS
ASSUMPTIONS = ['RDKit parses different spellings of one molecule to isomorphic graphs and its matcher is equivariant under '
               'renumbering (assumed); what is decided is that this repository adds no order dependence on top']
OUTSIDE = ['SMILES parsing, explicit/implicit hydrogens, Kekule vs aromatic input forms (RDKit)']
REALISED = ['atom indices in descriptor matches; the permutation (solver-enumerated)']


def h_renumber(d: bool):
    """
    post: _[0]
    """
    begin()
    n, P = PARAM.get('n', 3), PARAM.get('P', 3)
    adj, flags = K.build_case(n, P)
    perms = list(itertools.permutations(range(n)))
    pi = perms[choose('perm', len(perms))]          # new index of old atom a is pi[a]
    rev = bool(B('reverse_match_order'))
    remaps = K.REMAPS
    adj2 = {}
    for (i, j), on in adj.items():
        a, b = sorted((pi[i], pi[j]))
        adj2[(a, b)] = on
    inv = [0] * n
    for a in range(n):
        inv[pi[a]] = a
    flags2 = [[flags[p][inv[a]] for a in range(n)] for p in range(P)]
    m1, m2 = K.make_mol(n, adj), K.make_mol(n, adj2)
    s1 = K.make_scheme(P, lambda m, p, a: flags[p][a], remaps=remaps)
    s2 = K.make_scheme(P, lambda m, p, a: flags2[p][a], remaps=remaps)
    if rev:
        for pat in s2.patterns:
            f = pat['connectivity'].fn
            pat['connectivity'].fn = (lambda mol, f=f: list(reversed(list(f(mol)))))
    r1 = K.run_scheme(s1, m1)
    r2 = K.run_scheme(s2, m2)
    if r1[0] != r2[0]:
        return finish(False, 'renumbering changes the outcome: %s vs %s' % (r1[0], r2[0]))
    if r1[0] != 'ok':
        return finish(True, r1[0])
    return finish(r1[1] == r2[1], 'renumbering changes the descriptors', sorted(r1[1].items()), sorted(r2[1].items()))


def h_descr_shift(d: bool):
    """
    post: _[0]
    """
    begin()
    N = 24
    i, j = choose('i', N), choose('j', N)
    if i == j:
        return skip()
    shifts = PARAM.get('shifts') or list(range(N))
    s = shifts[choose('shift', len(shifts))]
    i2, j2 = (i + s) % N, (j + s) % N
    order = choose('order', 2)
    kind = ['other', 'smiles', 'smarts'][choose('kind', 3)]

    def count(a, b):
        ms = [(a, b), (b, a)] if order == 0 else [(b, a), (a, b)]
        mk = {'other': [], 'smiles': [], 'smarts': []}
        mk[kind] = ms
        mol, clean = K.descr_mols(mk, N)
        with NoTracing():       # concrete inputs: real CPython set order (see C02.h_descr)
            return dict(K._descr_scheme(mk)._AssignDescriptor(mol, clean))
    try:
        a, b = count(i, j), count(i2, j2)
    except Exception as e:
        return finish(False, 'raised:' + type(e).__name__)
    return finish(a == b, 'descr: the count of a correction descriptor depends on atom numbering', (i, j), (i2, j2),
                  sorted(a.items()), sorted(b.items()))


def h_ring_start(d: bool):
    """
    post: _[0]
    """
    begin()
    import pgradd.GroupAdd.Scheme as SC
    # the same six-ring (symbolic bond type per position, all carbon) handed over by ring perception starting at two different
    # atoms / in the two directions must be aromatised identically (how the SMILES is written decides where RDKit starts)
    types = [rf.BondType.SINGLE, rf.BondType.DOUBLE, rf.BondType.AROMATIC][:PARAM.get('ntypes', 2)]
    bts = [types[choose('b%d' % k, len(types))] for k in range(6)]
    s1, s2 = choose('start1', 6), choose('start2', 6)
    rev = bool(B('reverse'))

    def run(start, reverse):
        atoms = [rf.FAtom(6) for _ in range(6)]
        bonds = [rf.FBond(k, (k + 1) % 6, bts[k]) for k in range(6)]
        ring = [(start + k) % 6 for k in range(6)]
        if reverse:
            ring = [ring[0]] + list(reversed(ring[1:]))
        mol = rf.FMol(atoms, bonds, rings=[tuple(ring)])
        with NoTracing():
            saved = SC.Chem
            SC.Chem = rf.FakeChem()
            try:
                SC._aromatization_Benson(mol)
            finally:
                SC.Chem = saved
        return ([str(mol.GetBondBetweenAtoms(k, (k + 1) % 6).GetBondType()) for k in range(6)], [a.aromatic for a in mol.atoms])
    try:
        a, b = run(s1, False), run(s2, rev)
    except Exception as e:
        return finish(False, 'raised:' + type(e).__name__)
    return finish(a == b, 'ring: aromatisation of a ring depends on where its atom list starts', [str(t) for t in bts], s1, s2, rev)


def signature(ob, param, ret):
    st = str(ret[1]) if len(ret) > 1 else ''
    return '%s:%s' % (ob.split('_')[0], st.split(':')[0])


def obligations(tier, seed):
    q = tier == 'quick'
    to = 200 if q else 3000
    n, P = (3, 2) if q else (3, 3)
    obs = []
    for bits in range(2 ** P):
        for rev in (False, True):
            fix = dict(('m_p%d_a0' % p, bool(bits >> p & 1)) for p in range(P))
            fix['reverse_match_order'] = rev
            obs.append(dict(name='renumber_n%d_P%d_f%d_r%d' % (n, P, bits, rev), func='h_renumber',
                            param=dict(n=n, P=P, fix=fix), timeout=to))
    for b0 in range(2 if q else 3):
        for s1 in range(6):
            obs.append(dict(name='ring_start_b%d_s%d' % (b0, s1), func='h_ring_start',
                            param=dict(ntypes=2 if q else 3, fix=dict(b0=b0, start1=s1)), timeout=to))
    for i in range(0, 24, 3 if q else 1):
        obs.append(dict(name='descr_shift_i%d' % i, func='h_descr_shift',
                        param=dict(fix=dict(i=i), shifts=[1, 7, 8, 16] if q else None), timeout=to))
    return obs


def validate(tier, seed):
    """API-level witness search (concrete, real RDKit): random SMILES spellings of a few molecules give the same descriptors."""
    import random
    import warnings
    warnings.simplefilter('ignore')
    from rdkit import Chem
    import pgradd.ThermoChem  # noqa: F401
    from pgradd.GroupAdd.Library import GroupLibrary
    lib = GroupLibrary.Load('BensonGA')
    rnd = random.Random(seed)
    bad, n = [], 0
    for smi in ['C(=CC)CCCC=CC', 'CC(C)CC=CCO', 'C1CCCCC1C=C', 'CC(=O)OCC=CC']:
        ref = dict(lib.GetDescriptors(smi))
        mol = Chem.MolFromSmiles(smi)
        for _ in range(6):
            alt = Chem.MolToSmiles(mol, doRandom=True, canonical=False)
            n += 1
            try:
                got = dict(lib.GetDescriptors(alt))
            except Exception as e:
                got = repr(e)
            if got != ref:
                bad.append((smi, alt))
    entry = dict(name='BensonGA descriptors under random SMILES spellings (real RDKit, concrete)', ok=True, n=n,
                 detail='%d differing: %r' % (len(bad), bad[:2]))
    if bad:
        entry['violation'] = [False, 'descriptors depend on the SMILES spelling', {'a': bad[0][0], 'b': bad[0][1]}]
        entry['func'] = 'concrete'
    # the other input forms the property lists: a molecule object (no explicit hydrogens, all explicit, exactly one explicit),
    # each asked twice on the SAME object, against the SMILES text
    from vf.molforms import descriptors_of
    badf, nf = [], 0
    for smi in ['C(=CC)CCCC=CC', 'CC(C)CC=CCO', 'C1CCCCC1C=C', 'CC(=O)OCC=CC', 'c1ccccc1C']:
        ref = descriptors_of(lib, smi, 'smiles')[0]
        for form in ('mol', 'mol_allH', 'mol_oneH'):
            nf += 1
            if any(r != ref for r in descriptors_of(lib, smi, form, 2)):
                badf.append((smi, form))
    entry2 = dict(name='BensonGA descriptors of a molecule object (implicit / all explicit / one explicit hydrogen, asked twice) '
                       '= those of its SMILES (real RDKit, concrete)', ok=True, n=nf, detail='%d differing: %r' % (len(badf), badf[:2]))
    if badf:
        entry2['violation'] = [False, 'descriptors depend on the input form', {'a': badf[0][0], 'form': badf[0][1]}]
        entry2['func'] = 'concrete'
    return [entry, entry2]
