"""Input forms of one molecule for the concrete API-level steps (C03): SMILES text, molecule object without explicit
hydrogens, with all hydrogens explicit, and with exactly one hydrogen explicit."""


def as_input(smi, form):
    from rdkit import Chem
    if form == 'smiles':
        return smi
    mol = Chem.MolFromSmiles(smi)
    if form == 'mol':
        return mol
    if form == 'mol_allH':
        return Chem.AddHs(mol)
    if form == 'mol_oneH':
        rw = Chem.RWMol(mol)
        for a in rw.GetAtoms():
            if a.GetTotalNumHs() > 0 and not a.GetIsAromatic():
                h = rw.AddAtom(Chem.Atom(1))
                rw.AddBond(a.GetIdx(), h, Chem.BondType.SINGLE)
                break
        m = rw.GetMol()
        Chem.SanitizeMol(m)
        return m
    raise ValueError(form)


def descriptors_of(lib, smi, form, times=1):
    """descriptors (or the failure) of `smi` given in `form`; times=2 asks the SAME object twice and returns both"""
    x = as_input(smi, form)
    out = []
    for _ in range(times):
        try:
            out.append(dict(lib.GetDescriptors(x)))
        except Exception as e:
            out.append('raised ' + type(e).__name__)
    return out
