"""python -m vf.validate_driver Cxx tier seed -> JSON list on the last stdout line."""
import importlib
import json
import sys
import warnings

warnings.simplefilter('ignore')
prop, tier, seed = sys.argv[1], sys.argv[2], int(sys.argv[3])
mod = importlib.import_module('harness.' + prop)
res = mod.validate(tier, seed) if hasattr(mod, 'validate') else []
print(json.dumps(res, default=str))
