"""Implementation of the CrossHair plugin (imported as a real module; see plugin_reals.py)."""
import vf.plugin_stats  # noqa: F401  (z3 query counters)
from crosshair.libimpl import builtinslib as _b  # noqa: E402

_b._PYTYPE_TO_WRAPPER_TYPE[float] = ((_b.RealBasedSymbolicFloat, 1.0),)
_SV = _b.SymbolicValue


def _init(self, smtvar, typ=float, _SV=_SV):
    _SV.__init__(self, smtvar, typ)


_b.RealBasedSymbolicFloat.__init__ = _init


# --- formatting stub --------------------------------------------------------------------------
# "%g" % symbolic_float makes CrossHair realise the float (a fork per concrete value, so no
# obligation whose code formats a number into a message could ever be exhausted).  Messages are
# not the subject of any property here: numeric conversions (%g %f %e %d ...) applied to a
# symbolic number render as the opaque token <sym>; everything else is formatted as before.
import re as _re  # noqa: E402

from crosshair import core as _core  # noqa: E402
from crosshair.tracers import NoTracing as _NoTracing  # noqa: E402

# a harness may install a callable here to render a symbolic number as a placeholder token it can map back
SYM_RENDER = [None]


def _render(v):
    f = SYM_RENDER[0]
    return f(v) if f is not None else '<sym>'


_SPEC = _re.compile(r'%(\([^)]*\))?[-+ #0]*(\*|\d+)?(\.(\*|\d+))?[hlL]?([diouxXeEfFgGcrsa%])')
_orig_percent = _core._PATCH_REGISTRATIONS.get(str.__mod__)


def _percent(self, other):
    if not isinstance(self, str):
        raise TypeError
    with _NoTracing():
        args = other if isinstance(other, tuple) else (other,)
        symbolic = [isinstance(a, (_b.RealBasedSymbolicFloat, _b.SymbolicInt)) for a in args]
        rewritten = None
        if any(symbolic) and type(self) is str:
            specs = [m for m in _SPEC.finditer(self) if m.group(5) != '%']
            if not any(m.group(1) for m in specs) and not any(m.group(2) == '*' or m.group(4) == '*' for m in specs) \
                    and len(specs) != len(args) and not (len(specs) == 1 and not isinstance(other, tuple)):
                # Python's own verdict, without realising the symbolic arguments first
                raise TypeError('not all arguments converted during string formatting' if len(args) > len(specs)
                                else 'not enough arguments for format string')
            if len(specs) == len(args) and not any(m.group(1) for m in specs):
                out, last, new_args = [], 0, []
                for m, a, sym in zip(specs, args, symbolic):
                    out.append(self[last:m.start()])
                    last = m.end()
                    if sym and m.group(5) in 'diouxXeEfFgGsra':
                        out.append(_render(a).replace('%', '%%'))
                    else:
                        out.append(m.group(0))
                        new_args.append(a)
                out.append(self[last:])
                rewritten = (''.join(out), tuple(new_args))
    if rewritten is not None:
        self, other = rewritten
    other = _core.deep_realize(other)
    with _NoTracing():
        return str.__mod__(self, other)


if _orig_percent is not None:
    _core._PATCH_REGISTRATIONS[str.__mod__] = _percent


# --- no short-circuiting ----------------------------------------------------------------------
# CrossHair may replace a call to a contracted function (including its own patch of builtin hash())
# by a fresh symbolic return value.  Every function here is to be *executed*, never summarised.
def _never_shortcircuit(*a, **k):
    return None


_core.consider_shortcircuit = _never_shortcircuit


# f-strings and constant '%s' formats compile to FORMAT_VALUE: same stub for symbolic numbers there
from crosshair import opcode_intercept as _oi  # noqa: E402

_SYMNUM = (_b.RealBasedSymbolicFloat, _b.SymbolicInt)


def _is_symnum(v):
    with _NoTracing():
        return type(v) in _SYMNUM


def _fs_str(self):
    self.formatted = _render(self.value) if _is_symnum(self.value) else str(self.value)
    return ""


def _fs_format(self, fmt):
    self.formatted = _render(self.value) if _is_symnum(self.value) else format(self.value, fmt)
    return ""


def _fs_repr(self):
    self.formatted = _render(self.value) if _is_symnum(self.value) else repr(self.value)
    return ""


_oi.FormatStashingValue.__str__ = _fs_str
_oi.FormatStashingValue.__format__ = _fs_format
_oi.FormatStashingValue.__repr__ = _fs_repr
