"""HoleStr: a fixed-length text whose characters are either concrete or symbolic 1-character strings.

Stands in for `str` as the parser's input stream (KLEE-style symbolic buffer).  Comparisons look at the
concrete positions first (plain Python, no solver) and consult the solver only where a symbolic character
decides; everything else about the text (length, slicing, iteration) is concrete.  Validated against real
`str` on the seed corpus on every run (same trees, same error positions); replay uses a real `str`.
"""


def _is_conc(c):
    return type(c) is str


class HoleStr(object):
    __slots__ = ('c',)

    def __init__(self, chars):
        self.c = list(chars)

    @classmethod
    def build(cls, pre, syms, post):
        return cls(list(pre) + list(syms) + list(post))

    # --- structure -------------------------------------------------------------------------
    def __len__(self):
        return len(self.c)

    def __bool__(self):
        return len(self.c) > 0

    def __getitem__(self, i):
        if isinstance(i, slice):
            return _mk(self.c[i])
        return _mk([self.c[i]])

    def __iter__(self):
        return iter([_mk([x]) for x in self.c])

    def __add__(self, other):
        return _mk(self.c + _chars(other))

    def __radd__(self, other):
        return _mk(_chars(other) + self.c)

    def materialize(self):
        """one (possibly symbolic) str"""
        out = ''
        run = []
        for x in self.c:
            if _is_conc(x):
                run.append(x)
            else:
                out = out + ''.join(run) + x
                run = []
        return out + ''.join(run)

    def concrete(self):
        return all(_is_conc(x) for x in self.c)

    # --- comparison ------------------------------------------------------------------------
    def _eq(self, other):
        if isinstance(other, HoleStr):
            oc = other.c
        elif isinstance(other, str):
            oc = list(other) if type(other) is str else None
            if oc is None:
                return self.materialize() == other
        else:
            return NotImplemented
        if len(oc) != len(self.c):
            return False
        pending = []
        for a, b in zip(self.c, oc):
            if _is_conc(a) and _is_conc(b):
                if a != b:
                    return False
            else:
                pending.append((a, b))
        for a, b in pending:
            if not (a == b):
                return False
        return True

    def __eq__(self, other):
        return self._eq(other)

    def __ne__(self, other):
        r = self._eq(other)
        return r if r is NotImplemented else (not r)

    def __hash__(self):
        # only reached for a piece that contains a symbolic character: CrossHair's own (realising) hash
        return hash(self.materialize())

    def __contains__(self, sub):
        sub = _chars(sub)
        n = len(sub)
        for i in range(len(self.c) - n + 1):
            if HoleStr(self.c[i:i + n]) == HoleStr(sub):
                return True
        return n == 0

    # --- character classes --------------------------------------------------------------------
    def _all(self, name):
        if not self.c:
            return False
        for x in self.c:
            if not getattr(x, name)():
                return False
        return True

    def isdigit(self):
        return self._all('isdigit')

    def isalpha(self):
        return self._all('isalpha')

    def isalnum(self):
        return self._all('isalnum')

    def isspace(self):
        return self._all('isspace')

    def isascii(self):
        for x in self.c:
            if not x.isascii():
                return False
        return True

    def islower(self):
        return self.materialize().islower()

    def isupper(self):
        return self.materialize().isupper()

    def upper(self):
        return self.materialize().upper()

    def lower(self):
        return self.materialize().lower()

    # --- conversions ------------------------------------------------------------------------
    def __str__(self):
        return self.materialize()

    def __repr__(self):
        return 'HoleStr(%r)' % (self.c,)

    def __int__(self):
        return int(self.materialize())

    def split(self, *a):
        return self.materialize().split(*a)


def _mk(chars):
    """a real str when every character is concrete (so trees, names and dict keys are ordinary strings wherever
    the hole is not involved), else a HoleStr"""
    if all(type(x) is str for x in chars):
        return ''.join(chars)
    if len(chars) == 1:
        return chars[0]         # one symbolic character: CrossHair's own 1-character symbolic str (supports `c in "abc"`)
    return HoleStr(chars)


def _chars(x):
    if isinstance(x, HoleStr):
        return list(x.c)
    if type(x) is str:
        return list(x)
    return [x]          # a symbolic str: kept as one element (only correct for 1-character symbolic strings)
