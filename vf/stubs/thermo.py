"""Installs the numeric stubs into pgradd.ThermoChem's module namespaces and builds
symbolic correlations through the *real* constructors."""
import numpy as _real_np

import pgradd  # noqa: F401  (imported at module load: outside CrossHair tracing)
import pgradd.ThermoChem.base  # noqa: F401
import pgradd.ThermoChem.raw_data  # noqa: F401
import pgradd.ThermoChem.incomplete  # noqa: F401
import pgradd.ThermoChem.group_data  # noqa: F401
import pgradd.Error  # noqa: F401

from vf.stubs.numeric import (NpShim, PolySpline, QuadStub, SplineFactory, isclose_stub,
                              ln_axioms)
from vf.symkit import R, REPLAY

_installed = {}
WARNED = []


def warn_stub(message, category=UserWarning, *a, **k):
    """warnings.warn: records the category (the registry would hash the symbolic message text)."""
    WARNED.append(category)



def install():
    if _installed:
        return _installed
    import pgradd.ThermoChem.base as base
    import pgradd.ThermoChem.raw_data as rd
    import pgradd.ThermoChem.incomplete as inc
    import pgradd.ThermoChem.group_data as gd
    shim = NpShim(_real_np)
    inc.warn = warn_stub            # recorder (also in replay: only the category is observed)
    if REPLAY is None:
        base.np = shim
        rd.np = shim
        gd.np = shim
        inc.np = shim
        inc.isclose = isclose_stub
    _installed.update(base=base, rd=rd, inc=inc, gd=gd, shim=shim)
    return _installed


class Holder(object):
    spline = None


def sym_table(npts, deg=None):
    """Symbolic table of npts points lying on a polynomial with fresh symbolic monomial
    coefficients of degree min(3, npts-1) (the representation FITPACK would produce).
    Returns (Ts, Cps, spline, coefs).  Ts are NOT ordered (arbitrary supply order) but distinct."""
    if deg is None:
        deg = min(3, npts - 1)
    coefs = [R('c%d' % k) for k in range(deg + 1)]
    sp = PolySpline(coefs)
    Ts = [R('t%d' % i) for i in range(npts)]
    Cps = [sp(t) for t in Ts]
    return Ts, Cps, sp, coefs


def distinct(xs):
    for i in range(len(xs)):
        for j in range(i + 1, len(xs)):
            if xs[i] == xs[j]:
                return False
    return True


import sys as _sys  # noqa: E402
_RD = _sys.modules['pgradd.ThermoChem.raw_data']
_REAL_IUS = _RD.InterpolatedUnivariateSpline
_REAL_QUAD = _RD.integrate


class _RecordingReal(SplineFactory):
    """Replay mode: records the constructor call and delegates to the real FITPACK class."""

    def __call__(self, Ts, Cps, k=3):
        self.calls.append((tuple(Ts), tuple(Cps), k))
        return _REAL_IUS(Ts, Cps, k=k)


def patch_spline(spline, record_only=False):
    """Make raw_data build `spline` whenever it asks FITPACK for one; returns the factory
    (records what the constructor passed) and installs the quad stub bound to that spline.
    record_only: the factory interpolates itself (Newton form) - used where only the constructor's
    arguments matter."""
    m = install()
    if REPLAY is not None:
        fac = _RecordingReal()
        m['rd'].InterpolatedUnivariateSpline = fac   # real FITPACK behind a recorder; real QUADPACK
        return fac, None
    fac = SplineFactory(result=spline)
    m['rd'].InterpolatedUnivariateSpline = fac
    if record_only:
        return fac, None
    q = QuadStub(lambda: spline, R)
    m['rd'].integrate = q
    return fac, q


def smin(xs):
    m = xs[0]
    for x in xs[1:]:
        if x < m:
            m = x
    return m


def smax(xs):
    m = xs[0]
    for x in xs[1:]:
        if x > m:
            m = x
    return m


def ext_cp(sp, lo_t, hi_t, t):
    """Reference: Cp held at the end values outside the tabulated span."""
    if t < lo_t:
        return sp(lo_t)
    if t > hi_t:
        return sp(hi_t)
    return sp(t)


def ext_anti(sp, lo_t, hi_t, t):
    """Reference antiderivative F with F(lo_t)=0 of the extended Cp (independent of the code)."""
    if t < lo_t:
        return sp(lo_t) * (t - lo_t)
    if t > hi_t:
        return sp.integral(lo_t, hi_t) + sp(hi_t) * (t - hi_t)
    return sp.integral(lo_t, t)
