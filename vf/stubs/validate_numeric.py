"""Concrete validation of the numeric stubs against the things they replace."""
import random


def validate_polyspline(seed, trials=60):
    import numpy as np
    from scipy.interpolate import InterpolatedUnivariateSpline
    from vf.stubs.numeric import newton_poly
    rnd = random.Random(seed)
    worst = 0.0
    n = 0
    for _ in range(trials):
        N = rnd.randint(2, 4)
        xs = sorted(rnd.sample(range(100, 2000, 7), N))
        ys = [rnd.uniform(-20, 40) for _ in xs]
        real = InterpolatedUnivariateSpline(xs, ys, k=(3 if N > 3 else N - 1))
        mine = newton_poly([float(x) for x in xs], ys)
        for _ in range(8):
            t = rnd.uniform(xs[0], xs[-1])
            a, b = rnd.uniform(xs[0], xs[-1]), rnd.uniform(xs[0], xs[-1])
            e1 = abs(float(real(t)) - mine(t)) / (1 + abs(mine(t)))
            e2 = abs(real.integral(a, b) - mine.integral(a, b)) / (1 + abs(mine.integral(a, b)))
            worst = max(worst, e1, e2)
            n += 2
    return dict(name='PolySpline vs FITPACK InterpolatedUnivariateSpline (N=2..4, k=N-1)',
                ok=worst < 1e-8, n=n, detail='worst relative deviation %.2e' % worst)


def validate_quad(seed, trials=30):
    import math
    from scipy.integrate import quad
    from vf.stubs.numeric import PolySpline
    rnd = random.Random(seed + 1)
    worst, n = 0.0, 0
    for _ in range(trials):
        c = [rnd.uniform(-5, 5) for _ in range(rnd.randint(1, 4))]
        P = PolySpline(c)
        a, b = rnd.uniform(100, 2000), rnd.uniform(100, 2000)
        real = quad(lambda t: P(t) / t, a, b)[0]
        mine = c[0] * (math.log(b) - math.log(a)) + PolySpline(c[1:]).integral(a, b)
        worst = max(worst, abs(real - mine) / (1 + abs(mine)))
        n += 1
    return dict(name='QuadStub closed form vs scipy.integrate.quad', ok=worst < 1e-7, n=n,
                detail='worst relative deviation %.2e' % worst)


def validate_piecewise(seed, trials=12):
    """PiecewisePoly.from_real_spline vs the real FITPACK object: values and integrals on shipped-like tables (5..16 points)"""
    from scipy.interpolate import InterpolatedUnivariateSpline
    from vf.stubs.numeric import PiecewisePoly
    rnd = random.Random(seed + 2)
    worst, n = 0.0, 0
    for _ in range(trials):
        N = rnd.randint(5, 16)
        xs = sorted(rnd.sample(range(100, 3000, 13), N))
        ys = [rnd.uniform(1, 40) for _ in xs]
        real = InterpolatedUnivariateSpline(xs, ys, k=3)
        mine = PiecewisePoly.from_real_spline(real)
        for _ in range(10):
            t, a, b = (rnd.uniform(xs[0], xs[-1]) for _ in range(3))
            worst = max(worst, abs(float(real(t)) - mine(t)) / (1 + abs(mine(t))),
                        abs(real.integral(a, b) - mine.integral(a, b)) / (1 + abs(mine.integral(a, b))))
            n += 2
    return dict(name='PiecewisePoly (PPoly.from_spline) vs FITPACK spline, 5..16 points', ok=worst < 1e-8, n=n,
                detail='worst relative deviation %.2e' % worst)
