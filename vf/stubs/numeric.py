"""Numeric environment stubs: polynomial splines, numpy shim, uninterpreted LN / SQRT.

Contracts (part of every claim that uses them):
* PolySpline: the FITPACK interpolant of N <= 4 points with k = N-1 is the unique polynomial
  of degree N-1 through them (validated against real FITPACK on every run).
* NpShim: scalar semantics of the numpy functions the repo calls on scalars.
* LN: an uninterpreted function Real->Real; only true facts about ln are asserted
  (ratio rule on supplied base points, LN(1)=0, sign).
"""
from vf.symkit import REPLAY, NoTracing, is_sym, zv

if REPLAY is None:
    import z3
    from crosshair.libimpl.builtinslib import RealBasedSymbolicFloat
    from crosshair.statespace import context_statespace


class PolySpline(object):
    """p(t) = c[0] + c[1] t + ... ; emulates the spline object's __call__ and integral."""

    def __init__(self, coefs):
        self.c = list(coefs)

    def __call__(self, t):
        acc = 0
        for ck in reversed(self.c):
            acc = acc * t + ck
        return acc

    def anti(self, t):
        acc = 0
        for k in reversed(range(len(self.c))):
            acc = acc * t + self.c[k] / (k + 1)
        return acc * t

    def integral(self, a, b):
        return self.anti(b) - self.anti(a)


def newton_poly(xs, ys):
    """Interpolating polynomial through (xs, ys) as a callable with integral (Newton form)."""
    n = len(xs)
    dd = list(ys)
    coef = [dd[0]]
    for j in range(1, n):
        dd = [(dd[i + 1] - dd[i]) / (xs[i + j] - xs[i]) for i in range(n - j)]
        coef.append(dd[0])
    # expand to monomials
    mono = [0] * n
    basis = [1]  # polynomial coefficients of prod (t - x_i)
    for j in range(n):
        for k, b in enumerate(basis):
            mono[k] = mono[k] + coef[j] * b
        # basis *= (t - xs[j])
        nb = [0] * (len(basis) + 1)
        for k, b in enumerate(basis):
            nb[k + 1] = nb[k + 1] + b
            nb[k] = nb[k] - b * xs[j]
        basis = nb
    return PolySpline(mono)


class SplineFactory(object):
    """Stands in for the name InterpolatedUnivariateSpline; records constructor calls."""

    def __init__(self, result=None):
        self.calls = []
        self.result = result

    def __call__(self, Ts, Cps, k=3):
        self.calls.append((tuple(Ts), tuple(Cps), k))
        if self.result is not None:
            return self.result
        return newton_poly(list(Ts), list(Cps))


# ----------------------------------------------------------------------------------------------
if REPLAY is None:
    _LN = z3.Function('LN', z3.RealSort(), z3.RealSort())
    _SQRT = z3.Function('SQRT', z3.RealSort(), z3.RealSort())


def _sym(term):
    return RealBasedSymbolicFloat(term)


UF_LOG_OF_CONSTANTS = [False]    # harnesses with concrete table temperatures set this: ln(350.0) must be the SAME abstract
#                                  function value the code's ln(T/350.0) is related to by the ratio axioms


def ln(x):
    with NoTracing():
        if not is_sym(x):
            if UF_LOG_OF_CONSTANTS[0] and REPLAY is None:
                return _sym(_LN(zv(float(x))))
            import math
            return math.log(x)
        return _sym(_LN(zv(x)))


def ln_axioms(points):
    """Assert LN(p/q) = LN(p) - LN(q) for all ordered pairs of the base points, LN(1)=0,
    strict monotonicity between base points.  All true of the real logarithm for p,q > 0."""
    if REPLAY is not None:
        return
    with NoTracing():
        sp = context_statespace()
        zs = [zv(p) for p in points]
        sp.add(_LN(z3.RealVal(1)) == 0)
        for p in zs:
            for q in zs:
                if p is q:
                    continue
                sp.add(_LN(p / q) == _LN(p) - _LN(q))
                sp.add(z3.Implies(p < q, _LN(p) < _LN(q)))
                sp.add(z3.Implies(p == q, _LN(p) == _LN(q)))


def sqrt_uf(x):
    """SQRT as a bare uninterpreted function (no axioms): for harnesses that compare radicands."""
    with NoTracing():
        if not is_sym(x):
            import math
            return math.sqrt(x)
        return _sym(_SQRT(zv(x)))


def sqrt(x):
    with NoTracing():
        if not is_sym(x):
            import math
            return math.sqrt(x)
        t = zv(x)
        sp = context_statespace()
        s = _SQRT(t)
        sp.add(z3.Implies(t >= 0, z3.And(s >= 0, s * s == t)))
        return _sym(s)


class QuadStub(object):
    """scipy.integrate.quad for integrands f(t) = P(t)/t with P the PolySpline `spline`:
    returns c0*(LN b - LN a) + int (P - c0)/t.  Checks at a fresh symbolic t > 0 that
    f(t)*t == P(t), so an integrand of any other shape is reported (flag `bad`)."""

    def __init__(self, spline_getter, fresh_real):
        self.spline_getter = spline_getter
        self.fresh = fresh_real
        self.bad = False
        self.calls = 0

    def __call__(self, f, a, b):
        self.calls += 1
        P = self.spline_getter()
        t = self.fresh('tq')
        if t > 0:
            v = f(t) * t
            pv = P(t)
            if not (v == pv):
                self.bad = True
        c = P.c
        rest = PolySpline(c[1:])  # (P(t)-c0)/t = c1 + c2 t + ...
        return (c[0] * (ln(b) - ln(a)) + rest.integral(a, b), 0.0)


class NpShim(object):
    """Scalar stand-in for the numpy functions pgradd applies to scalars."""

    def __init__(self, real_np):
        self._np = real_np

    def __getattr__(self, name):
        return getattr(self._np, name)

    @staticmethod
    def any(x):
        if hasattr(x, '__iter__'):
            for v in x:
                if v:
                    return True
            return False
        return x

    @staticmethod
    def all(x):
        if hasattr(x, '__iter__'):
            for v in x:
                if not v:
                    return False
            return True
        return x

    @staticmethod
    def min(x):
        if hasattr(x, '__iter__'):
            xs = list(x)
            m = xs[0]
            for v in xs[1:]:
                if v < m:
                    m = v
            return m
        return x

    @staticmethod
    def max(x):
        if hasattr(x, '__iter__'):
            xs = list(x)
            m = xs[0]
            for v in xs[1:]:
                if v > m:
                    m = v
            return m
        return x

    amin, amax = min, max

    @staticmethod
    def isscalar(x):
        return not isinstance(x, (list, tuple))

    @staticmethod
    def ones_like(x):
        return 1.0

    @staticmethod
    def log(x):
        return ln(x)

    @staticmethod
    def sqrt(x):
        return sqrt(x)

    @staticmethod
    def square(x):
        return x * x

    def isclose(self, a, b, rtol=1e-05, atol=1e-08, equal_nan=False):
        """numpy.isclose on scalars over the reals: |a-b| <= atol + rtol*|b| as ONE z3 formula"""
        if REPLAY is not None or not (is_sym(a) or is_sym(b)):
            return self._np.isclose(a, b, rtol=rtol, atol=atol, equal_nan=equal_nan)
        with NoTracing():
            from crosshair.libimpl.builtinslib import SymbolicBool
            za, zb = zv(a), zv(b)
            d = za - zb
            ad = z3.If(d >= 0, d, -d)
            mb = z3.If(zb >= 0, zb, -zb)
            return SymbolicBool(ad <= z3.RealVal(repr(atol)) + z3.RealVal(repr(rtol)) * mb)

    def allclose(self, a, b, rtol=1e-05, atol=1e-08, equal_nan=False):
        if REPLAY is not None or not (is_sym(a) or is_sym(b)):
            return self._np.allclose(a, b, rtol=rtol, atol=atol, equal_nan=equal_nan)
        return self.isclose(a, b, rtol=rtol, atol=atol)

    def abs(self, x):
        if hasattr(x, '__iter__'):
            return self._np.abs(x)
        return -x if x < 0 else x

    absolute = fabs = abs


def isclose_stub(a, b, rel_tol=1e-9, abs_tol=0.0):
    """math.isclose over the reals as ONE z3 formula (a single branch when the result is used)."""
    if REPLAY is not None or not (is_sym(a) or is_sym(b)):
        import math
        return math.isclose(a, b, rel_tol=rel_tol, abs_tol=abs_tol)
    with NoTracing():
        from crosshair.libimpl.builtinslib import SymbolicBool
        za, zb = zv(a), zv(b)
        d = za - zb
        ad = z3.If(d >= 0, d, -d)
        ma = z3.If(za >= 0, za, -za)
        mb = z3.If(zb >= 0, zb, -zb)
        mx = z3.If(ma >= mb, ma, mb)
        return SymbolicBool(z3.Or(ad <= z3.RealVal(repr(rel_tol)) * mx, ad <= z3.RealVal(repr(abs_tol))))


# ----------------------------------------------------------------------------------------------
class Arr(object):
    """Minimal 2-D array over (possibly symbolic) reals: what pgradd's uncertainty code needs from
    numpy (zeros, row assignment with scalar broadcast, transpose, dot, scalar product, sqrt)."""

    def __init__(self, rows):
        self.rows = [list(r) for r in rows]

    @property
    def shape(self):
        return (len(self.rows), len(self.rows[0]) if self.rows else 0)

    integer = False

    def __setitem__(self, i, v):
        if self.integer:
            v = _trunc(v)
        if isinstance(i, tuple):
            self.rows[i[0]][i[1]] = v
        else:
            self.rows[i] = [v] * len(self.rows[i])

    def __matmul__(self, other):
        if isinstance(other, Vec):
            return other.__rmatmul__(self)
        return arr_dot(self, other)

    def __getitem__(self, i):
        if isinstance(i, tuple):
            return self.rows[i[0]][i[1]]
        return self.rows[i]

    def T(self):
        r, c = self.shape
        return Arr([[self.rows[i][j] for i in range(r)] for j in range(c)])

    def scale(self, s):
        return Arr([[x * s for x in r] for r in self.rows])

    def __mul__(self, s):
        return self.scale(s)

    __rmul__ = __mul__

    def map(self, f):
        return Arr([[f(x) for x in r] for r in self.rows])

    def item(self):
        if self.shape != (1, 1):
            raise ValueError('can only convert an array of size 1 to a Python scalar')
        return self.rows[0][0]

    def __float__(self):
        # numpy >= 2.x: float() of an array with ndim > 0 is a TypeError
        raise TypeError('only 0-dimensional arrays can be converted to Python scalars')

    def tolist(self):
        return [list(r) for r in self.rows]


def _as_arr(a):
    if isinstance(a, Arr):
        return a
    if hasattr(a, 'tolist'):
        a = a.tolist()
    if a and not isinstance(a[0], (list, tuple)):
        a = [a]
    return Arr(a)


def _trunc(x):
    """what storing x into an integer numpy array keeps: truncation toward zero"""
    with NoTracing():
        if not is_sym(x):
            return int(x)
        z = zv(x)
        return _sym(z3.If(z >= 0, z3.ToReal(z3.ToInt(z)), -z3.ToReal(z3.ToInt(-z))))


class Vec(object):
    """1-D array over (possibly symbolic) reals: item assignment (truncating when the array was created with an integer
    dtype), `@` with vectors and matrices, iteration."""

    def __init__(self, vals, integer=False):
        self.v, self.integer = list(vals), integer

    @property
    def shape(self):
        return (len(self.v),)

    def __len__(self):
        return len(self.v)

    def __iter__(self):
        return iter(self.v)

    def __getitem__(self, i):
        return self.v[i]

    def __setitem__(self, i, x):
        self.v[i] = _trunc(x) if self.integer else x

    @staticmethod
    def _mul_acc(pairs):
        acc = 0
        for x, y in pairs:
            if (not is_sym(x) and x == 0) or (not is_sym(y) and y == 0):
                continue
            acc = acc + x * y
        return acc

    def __matmul__(self, other):
        if isinstance(other, Vec):
            if len(other) != len(self):
                raise ValueError('shapes not aligned')
            return self._mul_acc(zip(self.v, other.v))
        m = _as_arr(other)
        r, c = m.shape
        if r != len(self):
            raise ValueError('shapes not aligned')
        return Vec([self._mul_acc((self.v[k], m.rows[k][j]) for k in range(r)) for j in range(c)])

    def __rmatmul__(self, other):
        m = _as_arr(other)
        r, c = m.shape
        if c != len(self):
            raise ValueError('shapes not aligned')
        return Vec([self._mul_acc((m.rows[i][k], self.v[k]) for k in range(c)) for i in range(r)])

    def dot(self, other):
        return self.__matmul__(other)

    def tolist(self):
        return list(self.v)

    def __float__(self):
        raise TypeError('only 0-dimensional arrays can be converted to Python scalars')


def arr_zeros(shape, dtype=None, *a, **k):
    integer = dtype is int or (dtype is not None and 'int' in str(dtype))
    if isinstance(shape, int):
        return Vec([0 if integer else 0.0] * shape, integer=integer)
    if len(shape) == 1:
        return Vec([0 if integer else 0.0] * shape[0], integer=integer)
    a2 = Arr([[0.0] * shape[1] for _ in range(shape[0])])
    a2.integer = integer
    return a2


def arr_dot(a, b):
    a, b = _as_arr(a), _as_arr(b)
    (ra, ca), (rb, cb) = a.shape, b.shape
    if ca != rb:
        raise ValueError('shapes not aligned')
    out = []
    for i in range(ra):
        row = []
        for j in range(cb):
            acc = 0
            for k in range(ca):
                x, y = a.rows[i][k], b.rows[k][j]
                # skip exact concrete zeros (keeps terms small; 0*x = 0 over the reals)
                if (not is_sym(x) and x == 0) or (not is_sym(y) and y == 0):
                    continue
                acc = acc + x * y
            row.append(acc)
        out.append(row)
    return Arr(out)


def arr_transpose(a):
    return _as_arr(a).T()


NpShim.zeros = staticmethod(arr_zeros)
NpShim.dot = staticmethod(arr_dot)
NpShim.transpose = staticmethod(arr_transpose)
_scalar_sqrt = NpShim.sqrt
_scalar_square = NpShim.square
NpShim.sqrt = staticmethod(lambda x: x.map(sqrt) if isinstance(x, Arr) else sqrt(x))
NpShim.square = staticmethod(lambda x: x.map(lambda v: v * v) if isinstance(x, Arr) else x * x)


# ----------------------------------------------------------------------------------------------
class PiecewisePoly(object):
    """The spline of a CONCRETE table as extracted from the real FITPACK object (scipy PPoly.from_spline): on each knot
    interval a polynomial in (t - x_i).  t may be symbolic: locating the interval forks once per breakpoint."""

    def __init__(self, breaks, coefs):
        # breaks: strictly increasing x_0 < ... < x_m ; coefs[i] = [a_0, a_1, ...] for sum a_k (t - x_i)^k on [x_i, x_{i+1}]
        self.x, self.a = list(breaks), [list(c) for c in coefs]
        self.cum = [0.0]
        for i in range(len(self.a)):
            self.cum.append(self.cum[-1] + self._anti_local(i, self.x[i + 1]))

    @classmethod
    def from_real_spline(cls, spl):
        from scipy.interpolate import PPoly
        pp = PPoly.from_spline(spl._eval_args)
        xs, cs = [], []
        for i in range(len(pp.x) - 1):
            if pp.x[i + 1] > pp.x[i]:
                xs.append(float(pp.x[i]))
                k = pp.c.shape[0]
                cs.append([float(pp.c[k - 1 - j][i]) for j in range(k)])
        xs.append(float(pp.x[-1]))
        return cls(xs, cs)

    def _piece(self, t):
        for i in range(len(self.a) - 1):
            if t < self.x[i + 1]:
                return i
        return len(self.a) - 1

    def __call__(self, t):
        i = self._piece(t)
        u = t - self.x[i]
        acc = 0
        for ak in reversed(self.a[i]):
            acc = acc * u + ak
        return acc

    def _anti_local(self, i, t):
        u = t - self.x[i]
        acc = 0
        for k in reversed(range(len(self.a[i]))):
            acc = acc * u + self.a[i][k] / (k + 1)
        return acc * u

    def anti(self, t):
        i = self._piece(t)
        return self.cum[i] + self._anti_local(i, t)

    def integral(self, a, b):
        return self.anti(b) - self.anti(a)
