"""LinDict: a mapping with the semantics of dict but membership/lookup by == instead of hash()
(hashing a symbolic value forces CrossHair to realise it).  Insertion order is kept, like dict."""


class LinDict(object):
    def __init__(self, items=()):
        self._items = []
        if hasattr(items, 'items'):
            items = list(items.items())
        for k, v in items:
            self[k] = v

    def _find(self, key):
        for i, (k, _) in enumerate(self._items):
            if k == key:
                return i
        return -1

    def __contains__(self, key):
        return self._find(key) >= 0

    def __getitem__(self, key):
        i = self._find(key)
        if i < 0:
            raise KeyError(key)
        return self._items[i][1]

    def get(self, key, default=None):
        i = self._find(key)
        return default if i < 0 else self._items[i][1]

    def __setitem__(self, key, value):
        i = self._find(key)
        if i < 0:
            self._items.append((key, value))
        else:
            self._items[i] = (self._items[i][0], value)

    def __delitem__(self, key):
        i = self._find(key)
        if i < 0:
            raise KeyError(key)
        del self._items[i]

    def __iter__(self):
        return iter([k for k, _ in self._items])

    def __len__(self):
        return len(self._items)

    def __bool__(self):
        return len(self._items) > 0

    def keys(self):
        return [k for k, _ in self._items]

    def values(self):
        return [v for _, v in self._items]

    def items(self):
        return list(self._items)

    def copy(self):
        c = LinDict()
        c._items = list(self._items)
        return c

    def update(self, other):
        for k, v in (other.items() if hasattr(other, 'items') else other):
            self[k] = v

    def pop(self, key, *default):
        i = self._find(key)
        if i < 0:
            if default:
                return default[0]
            raise KeyError(key)
        v = self._items[i][1]
        del self._items[i]
        return v

    def __eq__(self, other):
        if not hasattr(other, 'items'):
            return NotImplemented
        o = LinDict(other)
        if len(o) != len(self):
            return False
        for k, v in self._items:
            if k not in o or not (o[k] == v):
                return False
        return True

    def __repr__(self):
        return 'LinDict(%r)' % (self._items,)
