"""Duck-typed stand-ins for the RDKit objects pgradd's pure-Python layers touch.

Contract honoured (validated against real RDKit on every run where a harness uses it):
* Chem.Atom(symbol) raises RuntimeError for anything that is not an element symbol; the atom it returns is
  NOT a query atom (no ExpandQuery/Match), exactly like rdkit.Chem.Atom;
* rdqueries.*QueryAtom return query atoms (ExpandQuery, Match);
* RWMol.AddBond raises RuntimeError for a self-bond and for an already existing bond; AddAtom returns the new
  index; GetBondBetweenAtoms returns None when there is no bond;
* BondType / BondStereo / CompositeQueryType are RDKit's own enums (concrete values).
Everything else (fields of atoms and bonds, match sets) is data supplied by the harness, possibly symbolic.
"""
from rdkit import Chem as _RChem
from rdkit.Chem import GetPeriodicTable as _GPT

BondType = _RChem.BondType
_PT = _GPT()
ELEMENTS = [_PT.GetElementSymbol(z) for z in range(1, 119)]
_Z = dict((s, i + 1) for i, s in enumerate(ELEMENTS))


class FAtom(object):
    is_query = False

    def __init__(self, z=6, symbol=None, charge=0, radical=0, aromatic=False, inring=False):
        self.z, self.symbol = z, symbol if symbol is not None else (ELEMENTS[z - 1] if isinstance(z, int) and 0 < z < 119 else '?')
        self.charge, self.radical, self.aromatic, self.inring = charge, radical, aromatic, inring
        self.idx, self.mol, self.props = None, None, {}
        self.noimplicit = False
        self.total_valence = None

    def GetAtomicNum(self):
        return self.z

    def GetSymbol(self):
        return self.symbol

    def GetFormalCharge(self):
        return self.charge

    def SetFormalCharge(self, v):
        self.charge = v

    def GetNumRadicalElectrons(self):
        return self.radical

    def SetNumRadicalElectrons(self, v):
        self.radical = v

    def GetIsAromatic(self):
        return self.aromatic

    def SetIsAromatic(self, v):
        self.aromatic = v

    def IsInRing(self):
        if self.mol is not None and self.mol.rings is not None:
            for r in self.mol.rings:
                if self.idx in r:
                    return True
            return False
        return self.inring

    def GetIdx(self):
        return self.idx

    def GetOwningMol(self):
        return self.mol

    def GetBonds(self):
        return [b for b in self.mol.bonds if b.a == self.idx or b.b == self.idx]

    def GetNeighbors(self):
        return [self.mol.atoms[b.b if b.a == self.idx else b.a] for b in self.GetBonds()]

    def HasProp(self, k):
        return k in self.props

    def SetProp(self, k, v):
        self.props[k] = v

    def GetProp(self, k):
        return self.props[k]

    def SetNoImplicit(self, v):
        self.noimplicit = v

    def UpdatePropertyCache(self, strict=True):
        pass

    def GetTotalValence(self):
        return self.total_valence

    def GetNumImplicitHs(self):
        return 0                # fake molecules carry their hydrogens as atoms (as after AddHs)

    def GetTotalNumHs(self, includeNeighbors=False):
        return sum(1 for n in self.GetNeighbors() if n.z == 1) if includeNeighbors else 0

    def GetDegree(self):
        return len(self.GetBonds())

    def copy(self):
        a = type(self)(self.z, self.symbol, self.charge, self.radical, self.aromatic, self.inring)
        a.props = dict(self.props)
        a.total_valence = self.total_valence
        return a


class FQueryAtom(FAtom):
    is_query = True

    def __init__(self, desc, z=0, matcher=None):
        FAtom.__init__(self, z=z, symbol='*')
        self.desc = [desc]
        self.matcher = matcher

    def ExpandQuery(self, other, how=None, maintainOrder=True):
        self.desc.append((how, getattr(other, 'desc', other)))

    def Match(self, atom):
        return self.matcher(self, atom) if self.matcher else True

    def copy(self):
        a = FQueryAtom(None, self.z, self.matcher)
        a.desc = list(self.desc)
        return a


class FBond(object):
    def __init__(self, a, b, btype, inring=False, stereo=None, stereo_atoms=()):
        self.a, self.b, self.btype, self.inring = a, b, btype, inring
        self.mol = None
        self.aromatic = self.conjugated = False
        self.stereo = stereo if stereo is not None else _RChem.rdchem.BondStereo.STEREONONE
        self.stereo_atoms = list(stereo_atoms)

    def GetBondType(self):
        return self.btype

    def SetBondType(self, t):
        self.btype = t

    def IsInRing(self):
        if self.mol is not None and self.mol.rings is not None:
            for r in self.mol.rings:
                n = len(r)
                for k in range(n):
                    if set((r[k], r[(k + 1) % n])) == set((self.a, self.b)):
                        return True
            return False
        return self.inring

    def GetBeginAtomIdx(self):
        return self.a

    def GetEndAtomIdx(self):
        return self.b

    def GetBeginAtom(self):
        return self.mol.atoms[self.a]

    def GetEndAtom(self):
        return self.mol.atoms[self.b]

    def GetOtherAtom(self, atom):
        return self.mol.atoms[self.b if atom.idx == self.a else self.a]

    def SetIsAromatic(self, v):
        self.aromatic = v

    def GetIsAromatic(self):
        return self.aromatic

    def SetIsConjugated(self, v):
        self.conjugated = v

    def GetStereo(self):
        return self.stereo

    def GetStereoAtoms(self):
        return list(self.stereo_atoms)


class FRingInfo(object):
    def __init__(self, rings):
        self.rings = [tuple(r) for r in (rings or [])]

    def AtomRings(self):
        return tuple(self.rings)

    def NumRings(self):
        return len(self.rings)

    def NumAtomRings(self, idx):
        return sum(1 for r in self.rings if idx in r)

    def MinAtomRingSize(self, idx):
        sizes = [len(r) for r in self.rings if idx in r]
        return min(sizes) if sizes else 0

    def AtomRingSizes(self, idx):
        return tuple(len(r) for r in self.rings if idx in r)

    def IsAtomInRingOfSize(self, idx, size):
        return any(len(r) == size for r in self.rings if idx in r)

    def AtomMembers(self, idx):
        return tuple(i for i, r in enumerate(self.rings) if idx in r)


class FMol(object):
    """rings: list of atom-index tuples (None = per-atom/bond flags are used instead)."""

    def __init__(self, atoms=(), bonds=(), rings=None, matcher=None):
        self.atoms, self.bonds, self.rings, self.matcher = [], [], rings, matcher
        if isinstance(atoms, FMol):         # Chem.Mol(mol): a copy
            src = atoms
            self.rings, self.matcher = src.rings, src.matcher
            atoms = [a.copy() for a in src.atoms]
            bonds = [FBond(b.a, b.b, b.btype, b.inring, b.stereo, b.stereo_atoms) for b in src.bonds]
        for a in atoms:
            self._add_atom(a)
        for b in bonds:
            self._add_bond(b)

    def _add_atom(self, a):
        a.idx, a.mol = len(self.atoms), self
        self.atoms.append(a)
        return a.idx

    def _add_bond(self, b):
        b.mol = self
        self.bonds.append(b)

    def GetAtoms(self):
        return list(self.atoms)

    def GetBonds(self):
        return list(self.bonds)

    def GetNumAtoms(self):
        return len(self.atoms)

    def GetAtomWithIdx(self, i):
        if not (0 <= i < len(self.atoms)):
            raise RuntimeError('Range Error: atom index')
        return self.atoms[i]

    def GetBondBetweenAtoms(self, i, j):
        for b in self.bonds:
            if (b.a == i and b.b == j) or (b.a == j and b.b == i):
                return b
        return None

    def GetRingInfo(self):
        return FRingInfo(self.rings)

    def GetAromaticAtoms(self):
        return [a for a in self.atoms if a.aromatic]

    def GetSubstructMatches(self, query, **kw):
        return tuple(self.matcher(self, query, kw)) if self.matcher else tuple()

    def GetSubstructMatch(self, query, **kw):
        m = self.GetSubstructMatches(query, **kw)
        return m[0] if m else ()

    def HasSubstructMatch(self, query, **kw):
        return bool(self.GetSubstructMatches(query, **kw))

    def __bool__(self):
        return True

    def __copy__(self):
        m = type(self)(rings=self.rings, matcher=self.matcher)
        for a in self.atoms:
            m._add_atom(a.copy())
        for b in self.bonds:
            nb = FBond(b.a, b.b, b.btype, b.inring, b.stereo, b.stereo_atoms)
            m._add_bond(nb)
        return m


class FRWMol(FMol):
    def __init__(self, mol=None, **kw):
        FMol.__init__(self, **kw)
        if isinstance(mol, FMol):
            c = mol.__copy__()
            self.atoms, self.bonds, self.rings, self.matcher = c.atoms, c.bonds, c.rings, c.matcher
            for a in self.atoms:
                a.mol = self
            for b in self.bonds:
                b.mol = self

    def AddAtom(self, atom):
        return self._add_atom(atom)

    def AddBond(self, i, j, btype=BondType.UNSPECIFIED):
        if i == j:
            raise RuntimeError('Pre-condition Violation: attempt to add self-bond')
        if not (0 <= i < len(self.atoms) and 0 <= j < len(self.atoms)):
            raise RuntimeError('Range Error: atom index')
        if self.GetBondBetweenAtoms(i, j) is not None:
            raise RuntimeError('Pre-condition Violation: bond already exists')
        self._add_bond(FBond(i, j, btype))
        return len(self.bonds)

    def RemoveBond(self, i, j):
        b = self.GetBondBetweenAtoms(i, j)
        if b is not None:
            self.bonds.remove(b)

    def ReplaceAtom(self, idx, atom, updateLabel=False, preserveProps=False):
        if not (0 <= idx < len(self.atoms)):
            raise RuntimeError('Range Error: atom index')
        atom.idx, atom.mol = idx, self
        self.atoms[idx] = atom


class _Rdchem(object):
    BondStereo = _RChem.rdchem.BondStereo
    CompositeQueryType = _RChem.rdchem.CompositeQueryType
    BondType = BondType


class FakeRdqueries(object):
    def __init__(self, matcher=None):
        self.matcher = matcher

    def _q(self, kind, v):
        return FQueryAtom((kind, v), z=(v if kind == 'AtomNumEquals' else 0), matcher=self.matcher)

    def AtomNumGreaterQueryAtom(self, v):
        return self._q('AtomNumGreater', v)

    def AtomNumEqualsQueryAtom(self, v):
        return self._q('AtomNumEquals', v)

    def FormalChargeEqualsQueryAtom(self, v):
        return self._q('FormalChargeEquals', v)

    def TotalValenceEqualsQueryAtom(self, v):
        return self._q('TotalValenceEquals', v)

    def IsAromaticQueryAtom(self, *a):
        return self._q('IsAromatic', True)


class FakeChem(object):
    """The names pgradd reads from `rdkit.Chem`."""
    BondType = BondType
    rdchem = _Rdchem
    Bond = FBond
    Mol = FMol
    RWMol = FRWMol

    def __init__(self, known_element=None):
        # known_element(symbol) -> atomic number or None; default: the periodic table
        self.known_element = known_element or (lambda s: _Z.get(s) if type(s) is str else _lookup(s))

    def Atom(self, symbol):
        z = self.known_element(symbol)
        if z is None:
            raise RuntimeError('Element not found')
        return FAtom(z=z, symbol=symbol)

    @staticmethod
    def AddHs(m):
        return m

    @staticmethod
    def RemoveHs(m, sanitize=True):
        return m

    @staticmethod
    def Kekulize(m):
        pass

    @staticmethod
    def MolToSmiles(m):
        return '<fake>'

    @staticmethod
    def GetSymmSSSR(m):
        return [tuple(r) for r in (m.rings or [])]

    @staticmethod
    def GetMolFrags(m, asMols=False, sanitizeFrags=True):
        return (m,)

    @staticmethod
    def CombineMols(a, b):
        m = a.__copy__()
        off = len(m.atoms)
        for x in b.atoms:
            m._add_atom(x.copy())
        for bd in b.bonds:
            m._add_bond(FBond(bd.a + off, bd.b + off, bd.btype, bd.inring))
        return m


def _lookup(sym):
    """element lookup for a string with symbolic characters (== against each element symbol)"""
    for s, z in _Z.items():
        if len(s) == len(sym) and sym == s:
            return z
    return None


def install_reader_fakes(chem=None, rdq=None):
    """Patch the module namespaces of the RING readers and RDKit wrappers; returns an undo function."""
    import sys
    chem = chem or FakeChem()
    rdq = rdq or FakeRdqueries()
    mods = ['pgradd.RINGParser.MolQueryRead', 'pgradd.RDkitWrapper.MolQuery',
            'pgradd.RINGParser.ReactionQueryRead', 'pgradd.RDkitWrapper.ReactionQuery']
    saved = []
    for name in mods:
        m = sys.modules[name]
        for attr, val in (('Chem', chem), ('rdqueries', rdq)):
            if hasattr(m, attr):
                saved.append((m, attr, getattr(m, attr)))
                setattr(m, attr, val)

    def undo():
        for m, attr, val in saved:
            setattr(m, attr, val)
    return undo
