"""Engine B: a deliberately small AST -> z3 translator for string-keyed lookup kernels.

Supported subset (anything else raises Unsupported with file:line - never a silent skip):
  * a function body that is a sequence of `if <cond>: return <expr>` statements (no else),
    optional docstring/comments, ending in `return <expr>` or `raise <Exc>(...)`;
  * <cond>: and/or/not, `x in D`, `x not in D`, `x == y`, `x != y`
      where D is `self.<attr>` resolving to a concrete dict on the live object,
      x,y are string expressions;
  * string expressions: the parameter name, string constants, slices with constant non-negative
    bounds (`s[a:]`, `s[:b]`, `s[a:b]`);
  * <expr> (returned): `D[x]` or a product of such lookups.
Result: a list of Path(cond, kind, lookups, exc) over one z3 String variable.
"""
import ast
import inspect
import textwrap

import z3


class Unsupported(Exception):
    pass


class Path(object):
    def __init__(self, cond, kind, lookups=None, exc=None, lineno=None):
        self.cond, self.kind, self.lookups, self.exc, self.lineno = cond, kind, lookups or [], exc, lineno

    def __repr__(self):
        return 'Path(line %s, %s, %s)' % (self.lineno, self.kind, self.exc or self.lookups)


class Translator(object):
    def __init__(self, func, obj, param):
        self.func, self.obj, self.param = func, obj, param
        self.file = inspect.getsourcefile(func)
        src, self.first = inspect.getsourcelines(func)
        self.tree = ast.parse(textwrap.dedent(''.join(src)))
        self.var = z3.String(param)

    def bad(self, node, what):
        raise Unsupported('unsupported construct (%s) at %s:%d' % (what, self.file, self.first + getattr(node, 'lineno', 1) - 1))

    # --- expressions ------------------------------------------------------------------------
    def sexpr(self, n):
        if isinstance(n, ast.Name):
            if n.id != self.param:
                self.bad(n, 'name %s' % n.id)
            return self.var
        if isinstance(n, ast.Constant) and isinstance(n.value, str):
            return z3.StringVal(n.value)
        if isinstance(n, ast.Subscript) and isinstance(n.slice, ast.Slice):
            base = self.sexpr(n.value)
            sl = n.slice
            if sl.step is not None:
                self.bad(n, 'slice step')

            def bound(b):
                if b is None:
                    return None
                if isinstance(b, ast.Constant) and isinstance(b.value, int) and b.value >= 0:
                    return b.value
                self.bad(n, 'non-constant or negative slice bound')
            lo, hi = bound(sl.lower) or 0, bound(sl.upper)
            if hi is None:
                return z3.SubString(base, lo, z3.Length(base) - lo)
            return z3.SubString(base, lo, max(hi - lo, 0))
        self.bad(n, type(n).__name__)

    def dict_of(self, n):
        if isinstance(n, ast.Attribute) and isinstance(n.value, ast.Name) and n.value.id == 'self':
            d = getattr(self.obj, n.attr)
            if isinstance(d, dict) and all(isinstance(k, str) for k in d):
                return n.attr, d
        self.bad(n, 'container is not self.<dict with string keys>')

    def member(self, key, d):
        if not d:
            return z3.BoolVal(False)
        return z3.Or(*[key == z3.StringVal(k) for k in d])

    def cond(self, n):
        if isinstance(n, ast.BoolOp):
            parts = [self.cond(v) for v in n.values]
            return z3.And(*parts) if isinstance(n.op, ast.And) else z3.Or(*parts)
        if isinstance(n, ast.UnaryOp) and isinstance(n.op, ast.Not):
            return z3.Not(self.cond(n.operand))
        if isinstance(n, ast.Compare) and len(n.ops) == 1:
            op, left, right = n.ops[0], n.left, n.comparators[0]
            if isinstance(op, (ast.In, ast.NotIn)):
                _, d = self.dict_of(right)
                m = self.member(self.sexpr(left), d)
                return m if isinstance(op, ast.In) else z3.Not(m)
            if isinstance(op, (ast.Eq, ast.NotEq)):
                e = self.sexpr(left) == self.sexpr(right)
                return e if isinstance(op, ast.Eq) else z3.Not(e)
        self.bad(n, 'condition ' + type(n).__name__)

    def lookups(self, n):
        if isinstance(n, ast.BinOp) and isinstance(n.op, ast.Mult):
            return self.lookups(n.left) + self.lookups(n.right)
        if isinstance(n, ast.Subscript) and not isinstance(n.slice, ast.Slice):
            name, d = self.dict_of(n.value)
            return [(name, d, self.sexpr(n.slice))]
        self.bad(n, 'returned expression ' + type(n).__name__)

    # --- statements -------------------------------------------------------------------------
    def paths(self):
        fn = self.tree.body[0]
        if not isinstance(fn, ast.FunctionDef):
            self.bad(fn, 'not a function')
        out, prefix = [], []
        body = list(fn.body)
        if body and isinstance(body[0], ast.Expr) and isinstance(body[0].value, ast.Constant):
            body = body[1:]
        for st in body:
            pre = z3.And(*prefix) if prefix else z3.BoolVal(True)
            line = self.first + st.lineno - 1
            if isinstance(st, ast.If) and not st.orelse and len(st.body) == 1 and isinstance(st.body[0], ast.Return):
                c = self.cond(st.test)
                out.append(Path(z3.And(pre, c), 'return', self.lookups(st.body[0].value), lineno=line))
                prefix.append(z3.Not(c))
            elif isinstance(st, ast.Return):
                out.append(Path(pre, 'return', self.lookups(st.value), lineno=line))
                return out
            elif isinstance(st, ast.Raise):
                exc = st.exc.func.id if isinstance(st.exc, ast.Call) and isinstance(st.exc.func, ast.Name) else \
                    (st.exc.id if isinstance(st.exc, ast.Name) else None)
                if exc is None:
                    self.bad(st, 'raise of a non-name')
                out.append(Path(pre, 'raise', exc=exc, lineno=line))
                return out
            else:
                self.bad(st, type(st).__name__)
        out.append(Path(z3.And(*prefix) if prefix else z3.BoolVal(True), 'return-none', lineno=None))
        return out


def concrete_eval(paths, var, value):
    """Which path does a concrete string take (translator validation)."""
    s = z3.Solver()
    for i, p in enumerate(paths):
        s.push()
        s.add(var == z3.StringVal(value), p.cond)
        r = s.check()
        s.pop()
        if str(r) == 'sat':
            return i
    return None
