"""Symbolic values created inside a harness (no per-argument float forking).

Two modes:
* under CrossHair: R/I/B/S create z3-backed proxies; `finish` returns (ok, ..., {name: value}) so the
  counterexample line printed by CrossHair carries the whole assignment;
* replay (env VERIF_REPLAY = JSON {name: value}): the same creators return the recorded concrete
  values, the numeric/RDKit stubs are NOT installed (see vf.stubs.*), and the very same harness body
  runs the real, unstubbed code.  `close` then uses a float tolerance.
"""
import json
import os

TWIN = os.environ.get('VERIF_TWIN') == '1'
REPO = os.environ.get('VERIF_REPO') or '/repo'     # the tree under check (a scratch copy when trying seeded changes)
PARAM = json.loads(os.environ.get('VERIF_PARAM') or '{}')
REPLAY = json.loads(os.environ['VERIF_REPLAY']) if os.environ.get('VERIF_REPLAY') else None

if REPLAY is None:
    import z3
    from crosshair.libimpl.builtinslib import (RealBasedSymbolicFloat, SymbolicBool,
                                               SymbolicInt, LazyIntSymbolicStr)
    from crosshair.libimpl.builtinslib import SymbolicValue as _SymbolicValue
    from crosshair.statespace import context_statespace
    from crosshair.tracers import NoTracing
    from vf import plugin_stats as _ps
else:
    import contextlib

    @contextlib.contextmanager
    def NoTracing():
        yield

_CREATED = []


class Unreachable(Exception):
    pass


class MissingWitness(Exception):
    pass


def begin():
    """Call first in every harness: resets the per-path record of created symbolics."""
    del _CREATED[:]


FIX = PARAM.get('fix') or {}


def _mk(name, ctor, conv):
    if REPLAY is None and name in FIX:
        # this choice is split over parallel obligations: concrete here, recorded in the witness
        v = conv(FIX[name])
        _CREATED.append((name, v))
        return v
    if REPLAY is not None:
        if name not in REPLAY:
            raise MissingWitness(name)
        v = conv(REPLAY[name])
        _CREATED.append((name, v))
        return v
    with NoTracing():
        v = ctor(name + '_' + str(context_statespace().uniq()))
        _CREATED.append((name, v))
        return v


def R(name):
    return _mk(name, lambda n: RealBasedSymbolicFloat(n), float)


def I(name):
    return _mk(name, lambda n: SymbolicInt(n), int)


def B(name):
    return _mk(name, lambda n: SymbolicBool(n), bool)


def S(name):
    return _mk(name, lambda n: LazyIntSymbolicStr(n), str)


def is_sym(x):
    """a CrossHair symbolic value (numpy scalars also have a .var attribute - their variance method)"""
    if REPLAY is not None:
        return False
    with NoTracing():
        return isinstance(x, _SymbolicValue)


def C(name):
    """one symbolic character (any Unicode code point) as a CrossHair str of CONCRETE length 1"""
    if REPLAY is not None:
        if name not in REPLAY:
            raise MissingWitness(name)
        v = str(REPLAY[name])
        _CREATED.append((name, v))
        return v
    if name in FIX:
        v = str(FIX[name])
        _CREATED.append((name, v))
        return v
    with NoTracing():
        sp = context_statespace()
        cp = SymbolicInt(name + '_' + str(sp.uniq()))
        sp.add(z3.And(cp.var >= 0, cp.var <= 0x10FFFF))
        s = LazyIntSymbolicStr([cp])
        _CREATED.append((name, s))
        return s


def zv(x):
    """z3 term of a symbolic or concrete real/int (call under NoTracing)."""
    if isinstance(x, _SymbolicValue):
        v = x.var
        if z3.is_int(v):
            return z3.ToReal(v)
        return v
    if isinstance(x, bool):
        raise TypeError('bool')
    if isinstance(x, int):
        return z3.RealVal(x)
    if isinstance(x, float):
        return z3.RealVal(repr(float(x)))
    raise TypeError(type(x))


def assume_z3(expr):
    with NoTracing():
        context_statespace().add(expr)


def wrap_real(term):
    with NoTracing():
        return RealBasedSymbolicFloat(term)


def choose(name, n):
    """symbolic int in range(n), decided by branching (solver-enumerated)."""
    i = I(name)
    for k in range(n - 1):
        if i == k:
            return k
    return n - 1        # every other integer denotes the last option: total, no assumption needed


def close(a, b, rel=None):
    """Symbolic mode: |a-b| <= 1e-6*(1+|b|) over the reals (correct code makes the difference
    identically 0, any model of the negation is a macroscopic discrepancy).  Replay: 1e-7 float
    tolerance (FITPACK/QUADPACK error is far below, a replayed model is far above)."""
    if rel is None:
        rel = 1e-6 if REPLAY is None else 1e-7
    d = a - b
    if d < 0:
        d = -d
    m = b if b >= 0 else -b
    return d <= rel * (1 + m)


def _witness():
    return dict(_CREATED)


def finish(ok, *vals):
    """Common tail: vacuity twin flips the verdict after all assumptions."""
    if REPLAY is not None:
        return (bool(ok),) + tuple(vals) + (_witness(),)
    with NoTracing():
        _ps.bump('paths_finished')
    if TWIN:
        return (False,) + tuple(vals) + (_witness(),)
    return (bool(ok),) + tuple(vals) + (_witness(),)


def skip():
    """Assumption not met on this path."""
    if REPLAY is not None:
        return (True, 'assumption-not-met')
    with NoTracing():
        _ps.bump('paths_assumed_away')
    return (True,)


def _zclose(a, b, rel):
    za, zb = zv(a), zv(b)
    d = za - zb
    ad = z3.If(d >= 0, d, -d)
    ab = z3.If(zb >= 0, zb, -zb)
    return ad <= z3.RealVal(repr(rel)) * (1 + ab)


def all_close(pairs, labels=None, rel=None):
    """Conjunction of close(a, b) over pairs decided with ONE branch (a single z3 formula) instead of
    ~3 Python-level forks per comparison.  Returns (ok, label of the first failing pair or 'ok')."""
    labels = labels or ['#%d' % i for i in range(len(pairs))]
    if REPLAY is not None:
        for (a, b), lab in zip(pairs, labels):
            if not close(a, b, rel):
                return False, lab
        return True, 'ok'
    if TWIN:
        return True, 'ok'       # the twin only witnesses that this point is reachable under the assumptions
    with NoTracing():
        # fast path: pairs whose difference normalises to the zero polynomial are equal for every value (z3's simplifier is
        # an equivalence-preserving rewriter; som = sum-of-monomials normal form) and need no solver query at all
        todo = []
        for (a, b) in pairs:
            try:
                dz = z3.simplify(zv(a) - zv(b), som=True, som_blowup=10 ** 7)
                if z3.is_rational_value(dz) and dz.numerator_as_long() == 0:
                    continue
            except Exception:
                pass
            todo.append((a, b))
        if not todo:
            return True, 'ok'
        conj = z3.And(*[_zclose(a, b, 1e-6 if rel is None else rel) for a, b in todo])
        sb = SymbolicBool(conj)
    if sb:
        return True, 'ok'
    for (a, b), lab in zip(pairs, labels):      # only on a failing path: name the culprit
        if not close(a, b, rel):
            return False, lab
    return False, 'conjunction'
