"""CrossHair plugin: count and time z3 queries; dump on exit to $VERIF_STATS (JSON)."""
import atexit
import json
import os
import time

import z3

_stats = {'z3_checks': 0, 'z3_time_s': 0.0, 'sat': 0, 'unsat': 0, 'unknown': 0,
          'paths_finished': 0, 'paths_assumed_away': 0}
_orig = z3.Solver.check


def _check(self, *a, **k):
    t = time.perf_counter()
    r = _orig(self, *a, **k)
    _stats['z3_time_s'] += time.perf_counter() - t
    _stats['z3_checks'] += 1
    _stats[str(r)] = _stats.get(str(r), 0) + 1
    return r


z3.Solver.check = _check


def bump(key):
    _stats[key] = _stats.get(key, 0) + 1


def _dump():
    # CrossHair's audit wall forbids opening files for writing: report on stderr instead
    if os.environ.get('VERIF_STATS'):
        try:
            import sys
            sys.stderr.write('\nVERIF_STATS ' + json.dumps(_stats) + '\n')
            sys.stderr.flush()
        except Exception:
            pass


atexit.register(_dump)
