"""CrossHair plugin (--extra_plugin): model Python `float` as a z3 Real only.

CrossHair 0.0.110 forks every float between a Real model and an IEEE model and caps
any verdict that touched the Real model at UNKNOWN.  For the algebraic identities
checked here the Real model is the intended semantics (stated in every evidence
file: IEEE rounding/overflow/NaN/inf are outside the claim), so the plugin pins the
model and removes the cap.
"""
import os as _os
import sys as _sys

# the plugin file is exec()'d by CrossHair (no __file__): PYTHONPATH is set by vf.runner; fall back to cwd
for _p in (_os.environ.get('VERIF_ROOT') or _os.getcwd(), '/verif'):
    if _os.path.isdir(_os.path.join(_p, 'vf')) and _p not in _sys.path:
        _sys.path.insert(0, _p)
import vf.plugin_impl  # noqa: E402,F401
