"""python -m vf.replay_driver <counterexample.json> -> JSON dict on the last stdout line.

Replays a counterexample against the real code in /repo, without CrossHair and without the
numeric/RDKit stubs.  Default mechanism: the harness function itself is re-executed with every
symbolic creator returning the recorded concrete value (vf.symkit replay mode), so the very same
oracle judges the real, unstubbed code.  A property may override with replay/<prop>.py:replay(cex).
"""
import importlib
import json
import os
import signal
import sys
import traceback
import warnings

warnings.simplefilter('ignore')
cex = json.load(open(sys.argv[1]))
prop = cex['property']
# replay mode must be switched on BEFORE any harness/stub module is imported (vf.symkit reads it at import)
_w = cex.get('witness')
_assign = _w[-1] if isinstance(_w, (list, tuple)) and _w and isinstance(_w[-1], dict) else {}
os.environ['VERIF_REPLAY'] = json.dumps(_assign)
os.environ['VERIF_PARAM'] = json.dumps(cex.get('param') or {})


class _Hang(Exception):
    pass


def _alarm(*a):
    raise _Hang()


def generic(cex):
    wit = cex['witness']
    assign = wit[-1] if isinstance(wit, (list, tuple)) and wit and isinstance(wit[-1], dict) else None
    if assign is None:
        return dict(reproduced=False, error='witness carries no assignment: %r' % (wit,))
    os.environ['VERIF_REPLAY'] = json.dumps(assign)
    os.environ['VERIF_PARAM'] = json.dumps(cex.get('param') or {})
    mod = importlib.import_module('harness.' + prop)
    fn = getattr(mod, cex['func'])
    signal.signal(signal.SIGALRM, _alarm)
    signal.alarm(int(cex.get('replay_timeout', 60)))
    try:
        ret = fn(False)
    except _Hang:
        ret = (False, 'hang: no result within %ss on the real code' % cex.get('replay_timeout', 60))
    finally:
        signal.alarm(0)
    reproduced = (ret[0] is False)
    sig = cex['obligation']
    if hasattr(mod, 'signature'):
        try:
            sig = mod.signature(cex['obligation'], cex.get('param') or {}, ret)
        except Exception:
            pass
    return dict(reproduced=reproduced, signature=sig, detail=repr(ret)[:1500])


try:
    try:
        rmod = importlib.import_module('replay.' + prop)
    except ModuleNotFoundError:
        rmod = None
    if rmod is not None and hasattr(rmod, 'replay') and cex.get('origin') != 'force_generic':
        res = rmod.replay(cex)
        if res is None:
            res = generic(cex)
    else:
        res = generic(cex)
except Exception as e:  # a crashing replay is a harness error, not a verdict
    res = dict(reproduced=False, error='replay crashed: %r\n%s' % (e, traceback.format_exc()[-1500:]))
print(json.dumps(res, default=str))
