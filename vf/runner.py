"""Runs the obligations of one property as parallel solver jobs and decides the check.

Engine A obligations: one `crosshair check` process per (obligation, twin) on a harness
function that executes /repo's real code on symbolic values; z3 decides every path.
Engine B obligations: a function in the harness module that builds z3 queries from
/repo's source (py2smt) and is run in its own process.

Exit codes: 0 held (or only known findings), 1 new reproduced violation, 3 harness error.
"""
import argparse
import ast
import concurrent.futures as cf
import hashlib
import importlib
import inspect
import json
import os
import re
import subprocess
import sys
import tempfile
import time

ROOT = os.path.dirname(os.path.dirname(os.path.abspath(__file__)))
PY = os.path.join(ROOT, '.venv', 'bin', 'python')
CROSSHAIR = os.path.join(ROOT, '.venv', 'bin', 'crosshair')
PLUGIN = os.path.join(ROOT, 'vf', 'plugin_reals.py')
NCPU = int(os.environ.get('VERIF_JOBS') or (os.cpu_count() or 4))
REPO = os.environ.get('VERIF_REPO') or '/repo'      # VERIF_REPO=<scratch copy>: run the checks against a copy (seeded changes)


def def_lines(path):
    tree = ast.parse(open(path).read())
    return {n.name: n.lineno + 1 for n in ast.walk(tree) if isinstance(n, ast.FunctionDef)}


def base_env(extra=None):
    env = dict(os.environ)
    env['PYTHONPATH'] = ROOT + os.pathsep + REPO
    env['VERIF_REPO'] = REPO
    env['PYTHONHASHSEED'] = '0'
    env['PGRADD_VERIF'] = '1'
    env.setdefault('MPLCONFIGDIR', os.path.join(tempfile.gettempdir(), 'verif_mpl'))
    env['MPLBACKEND'] = 'Agg'
    env.pop('VERIF_TWIN', None)
    env.pop('VERIF_PARAM', None)
    if extra:
        env.update(extra)
    return env


_RET = re.compile(r'\(which returns (.*)\)\s*$')


def parse_crosshair(out):
    """-> (status, witness_text).  status in confirmed|cex|not_confirmed|no_precondition|exception|none"""
    status, wit = 'none', None
    for line in out.splitlines():
        m = re.match(r'^\S+?:\d+: (error|info|warning): (.*)$', line)
        if not m:
            continue
        kind, msg = m.group(1), m.group(2)
        if kind == 'info' and msg.startswith('Confirmed over all paths'):
            status = 'confirmed'
        elif kind == 'info' and msg.startswith('Not confirmed'):
            status = 'not_confirmed'
        elif kind == 'info' and msg.startswith('Unable to meet precondition'):
            status = 'no_precondition'
        elif kind == 'error':
            r = _RET.search(msg)
            if msg.startswith('false when calling') and r:
                status, wit = 'cex', r.group(1)
            else:
                status, wit = 'exception', msg
    return status, wit


def lit(text):
    """Parse a repr'd witness tuple; tolerate inf/nan names."""
    try:
        return ast.literal_eval(text)
    except Exception:
        try:
            return eval(text, {'__builtins__': {}}, {'inf': float('inf'), 'nan': float('nan')})
        except Exception:
            return text


def run_crosshair(harness_path, lines, ob, twin):
    func = ob['func']
    line = lines[func]
    # budgets in the harness files are what an obligation needs on an idle 16-core box; the check may run on a
    # loaded machine, so the solver budget actually granted is scaled (a longer budget never changes a verdict)
    scale = float(os.environ.get('VERIF_TIMEOUT_SCALE') or (3 if ob.get('tier', 'quick') == 'quick' else 1))
    timeout = int((ob.get('timeout', 60) if not twin else min(ob.get('timeout', 60), ob.get('twin_timeout', 120))) * scale)
    env = base_env({'VERIF_PARAM': json.dumps(ob.get('param', {})), 'VERIF_STATS': '1'})
    if twin:
        env['VERIF_TWIN'] = '1'
    cmd = [CROSSHAIR, 'check', '--extra_plugin', PLUGIN, '--report_all',
           '--per_condition_timeout', str(timeout),
           '--per_path_timeout', str(ob.get('path_timeout', timeout)),
           '%s:%d' % (harness_path, line)]
    t0 = time.time()
    try:
        p = subprocess.run(cmd, env=env, cwd=ROOT, capture_output=True, text=True,
                           timeout=timeout * 1.5 + 120)
        out, err, rc = p.stdout, p.stderr, p.returncode
    except subprocess.TimeoutExpired as e:
        out, err, rc = (e.stdout or b'').decode() if isinstance(e.stdout, bytes) else (e.stdout or ''), 'hard timeout', -9
    wall = time.time() - t0
    status, wit = parse_crosshair(out)
    if status == 'none' and rc == -9:
        # a single solver query outlived the budget and the process was killed: inconclusive, not a harness error
        status, wit = 'not_confirmed', 'hard timeout (solver query did not return within 1.5 x budget + 120 s)'
    if status == 'none':
        wit = (out + '\n' + (err or ''))[-1500:]
    stats = {}
    for l in (err or '').splitlines():
        if l.startswith('VERIF_STATS '):
            try:
                stats = json.loads(l[len('VERIF_STATS '):])
            except Exception:
                pass
    return dict(name=ob['name'], twin=twin, status=status, witness=wit, wall_s=round(wall, 2),
                stats=stats, rc=rc)


def run_direct(mod, ob):
    env = base_env({'VERIF_PARAM': json.dumps(ob.get('param', {}))})
    t0 = time.time()
    try:
        p = subprocess.run([PY, '-m', 'vf.direct_driver', mod, ob['func']], env=env, cwd=ROOT,
                           capture_output=True, text=True, timeout=ob.get('timeout', 300) + 60)
        last = [l for l in p.stdout.splitlines() if l.startswith('{')]
        res = json.loads(last[-1]) if last else dict(status='none', witness=(p.stdout + p.stderr)[-1500:])
    except subprocess.TimeoutExpired:
        res = dict(status='not_confirmed', witness='hard timeout')
    res.setdefault('stats', {})
    res.update(name=ob['name'], twin=False, wall_s=round(time.time() - t0, 2))
    return res


def run_py(args, timeout):
    try:
        p = subprocess.run([PY] + args, env=base_env(), cwd=ROOT, capture_output=True, text=True,
                           timeout=timeout)
        last = [l for l in p.stdout.splitlines() if l.startswith('{') or l.startswith('[')]
        if not last:
            return None, (p.stdout + p.stderr)[-3000:]
        return json.loads(last[-1]), (p.stdout + p.stderr)[-3000:]
    except subprocess.TimeoutExpired:
        return None, 'timeout after %ss' % timeout


def load_known(prop):
    path = os.path.join(ROOT, 'known_findings.json')
    if not os.path.exists(path):
        return []
    data = json.load(open(path))
    return [e for e in data.get('entries', []) if e.get('property') == prop and e.get('kind') == 'finding']


def functions_encoded(specs):
    out = []
    for spec in specs:
        try:
            modname, qual = spec.split(':')
            obj = importlib.import_module(modname)
            for part in qual.split('.'):
                obj = getattr(obj, part)
            obj = inspect.unwrap(getattr(obj, '__func__', obj))
            src = inspect.getsource(obj)
            out.append(dict(name=spec, file=inspect.getsourcefile(obj),
                            line=inspect.getsourcelines(obj)[1],
                            sha256=hashlib.sha256(src.encode()).hexdigest()[:16]))
        except Exception as e:  # recorded, not fatal: the harness itself will fail if truly absent
            out.append(dict(name=spec, error=repr(e)))
    return out


def replay_cex(prop, cexpath, timeout=180):
    res, raw = run_py(['-m', 'vf.replay_driver', cexpath], timeout)
    if res is None:
        return dict(reproduced=False, error=raw)
    return res


def main(argv=None):
    ap = argparse.ArgumentParser()
    ap.add_argument('prop')
    ap.add_argument('--tier', default=os.environ.get('VERIF_TIER') or 'quick')
    ap.add_argument('--replay')
    ap.add_argument('--only', help='comma list of obligation names (debug)')
    ap.add_argument('--no-twins', action='store_true')
    args = ap.parse_args(argv)
    prop = args.prop
    seed = int(os.environ.get('VERIF_SEED') or 0)
    tier = args.tier if args.tier in ('quick', 'thorough') else 'quick'

    if args.replay:
        res = replay_cex(prop, args.replay)
        print(json.dumps(res, indent=1))
        if res.get('reproduced'):
            print('VIOLATION property=%s replay=%s' % (prop, args.replay))
            return 1
        return 0

    t_start = time.time()
    sys.path.insert(0, ROOT)
    sys.path.insert(0, REPO)
    os.environ.setdefault('PGRADD_VERIF', '1')
    modname = 'harness.%s' % prop
    mod = importlib.import_module(modname)
    hpath = os.path.join(ROOT, 'harness', prop + '.py')
    lines = def_lines(hpath)
    obs = mod.obligations(tier, seed)
    for o in obs:
        o['tier'] = tier
    if args.only:
        keep = set(args.only.split(','))
        obs = [o for o in obs if o['name'] in keep]
    known = load_known(prop)

    # 1. stub / translator validation (concrete, real code) --------------------------------
    val, raw = run_py(['-m', 'vf.validate_driver', prop, tier, str(seed)],
                      getattr(mod, 'VALIDATE_TIMEOUT', 600))
    harness_errors = []
    cexs = []   # (obligation name, param, witness)
    if val is None:
        harness_errors.append('validation crashed: ' + raw[-800:])
        val = []
    n_val_cmp = 0
    for v in val:
        n_val_cmp += int(v.get('n', 1))
        if v.get('violation') is not None:
            cexs.append((v['name'], v.get('param', {}), v['violation'], 'validation', v.get('func')))
        elif not v.get('ok'):
            harness_errors.append('stub validation failed: %s: %s' % (v['name'], v.get('detail')))

    # 2. solver jobs ------------------------------------------------------------------------
    jobs = []
    with cf.ThreadPoolExecutor(max_workers=NCPU) as ex:
        for ob in obs:
            if ob.get('kind', 'crosshair') == 'direct':
                jobs.append((ob, ex.submit(run_direct, modname, ob)))
            else:
                jobs.append((ob, ex.submit(run_crosshair, hpath, lines, ob, False)))
                if not args.no_twins and not ob.get('no_twin'):
                    jobs.append((ob, ex.submit(run_crosshair, hpath, lines, ob, True)))
        results = [(ob, f.result()) for ob, f in jobs]

    ob_status = {}
    twins_ok = twins_total = 0
    agg = dict(z3_checks=0, z3_time_s=0.0, paths_finished=0, paths_assumed_away=0, sat=0, unsat=0, unknown=0)
    samples = []
    for ob, r in results:
        for k in agg:
            agg[k] += r.get('stats', {}).get(k, 0)
        if r['twin']:
            twins_total += 1
            if r['status'] == 'cex':
                twins_ok += 1
            elif r['status'] in ('confirmed',):
                harness_errors.append('vacuous harness: twin of %s confirmed (assertion unreachable)' % ob['name'])
            else:
                # twin inconclusive: recorded, main verdict downgraded to inconclusive
                ob_status.setdefault(ob['name'], {})['twin_inconclusive'] = r['status']
            continue
        st = ob_status.setdefault(ob['name'], {})
        st.update(status=r['status'], wall_s=r['wall_s'], stats=r.get('stats', {}), param=ob.get('param', {}))
        if r['status'] == 'cex':
            cexs.append((ob['name'], ob.get('param', {}), lit(r['witness']) if isinstance(r['witness'], str) else r['witness'],
                         'abstraction' if ob.get('abstraction') else 'solver', ob.get('func')))
        elif r['status'] in ('exception', 'none'):
            harness_errors.append('obligation %s: harness raised/unparsed: %s' % (ob['name'], str(r['witness'])[-600:]))
        if len(samples) < 12:
            samples.append(dict(obligation=ob['name'], param=ob.get('param', {}), verdict=r['status'],
                                wall_s=r['wall_s'], paths=r.get('stats', {}).get('paths_finished')))

    # 3. replay every counterexample on the real code ---------------------------------------
    os.makedirs(os.path.join(ROOT, 'counterexamples'), exist_ok=True)
    violations, knowns, spurious = [], [], []
    for name, param, wit, origin, func in cexs:
        cex = dict(property=prop, obligation=name, func=func, param=param, witness=wit, origin=origin)
        h = hashlib.sha256(json.dumps(cex, sort_keys=True, default=str).encode()).hexdigest()[:10]
        path = os.path.join(ROOT, 'counterexamples', '%s_%s_%s.json' % (prop, re.sub(r'[^A-Za-z0-9_.-]+', '_', name)[:60], h))
        with open(path, 'w') as f:
            json.dump(cex, f, indent=1, default=str)
        res = replay_cex(prop, path)
        cex['replay'] = res
        if res.get('reproduced'):
            sig = res.get('signature', name)
            hit = [k for k in known if re.fullmatch(k['signature'], sig)]
            if hit:
                knowns.append((sig, hit[0], path))
            else:
                violations.append((sig, path, res.get('detail')))
        elif origin == 'abstraction' and not res.get('error'):
            spurious.append((name, wit, res.get('detail')))
            ob_status[name]['status'] = 'spurious_under_abstraction'
        else:
            harness_errors.append('counterexample of %s did not reproduce on the real code: witness=%r replay=%r'
                                  % (name, wit, res))

    # 4. verdict + evidence -------------------------------------------------------------------
    n_ob = len(ob_status)
    discharged = sum(1 for s in ob_status.values()
                     if s.get('status') == 'confirmed' and not s.get('twin_inconclusive'))
    inconclusive = {n: (s.get('status') if s.get('status') != 'confirmed' else 'twin:' + s.get('twin_inconclusive', ''))
                    for n, s in ob_status.items()
                    if not (s.get('status') == 'confirmed' and not s.get('twin_inconclusive')) and s.get('status') != 'cex'}
    # the level is the one claimed in MANIFEST.json; how much of it this run delivered is in obligations/discharged/
    # inconclusive (an obligation whose solver budget ran out is never counted as discharged)
    level = 'model_checking'
    nontrivial = sum(1 for s in ob_status.values() if s.get('stats', {}).get('paths_finished', 0) > 0 or s.get('stats', {}).get('z3_checks', 0) > 0)
    ev = dict(
        property_id=prop, tier=tier, seed=seed, level=level,
        coverage=dict(
            obligations=n_ob, discharged=discharged,
            inconclusive=inconclusive,
            states=max(1, agg['paths_finished'] + agg['paths_assumed_away']),
            transitions=max(1, agg['z3_checks']),
            traces_validated_against_impl=n_val_cmp + len(cexs),
            evaluations=max(1, agg['paths_finished']),
            distinct_nontrivial=max(nontrivial, 0),
            rule='one case = one symbolic execution path of the real code that reached the property assertion '
                 '(paths cut by an assumption are counted separately); distinct_nontrivial counts obligations '
                 '(harness x parameter) with at least one asserted path; every path stands for all values of the '
                 'symbolic variables satisfying its path condition, decided by z3',
            samples=samples,
            exhaustive=bool(discharged == n_ob and n_ob > 0),
            paths_asserted=agg['paths_finished'], paths_assumed_away=agg['paths_assumed_away'],
            z3_queries=agg['z3_checks'], z3_sat=agg['sat'], z3_unsat=agg['unsat'], z3_unknown=agg['unknown'],
            solver_time_s=round(agg['z3_time_s'], 2),
            functions_encoded=functions_encoded(getattr(mod, 'FUNCTIONS_ENCODED', [])),
            bounds=getattr(mod, 'BOUNDS', {}).get(tier, getattr(mod, 'BOUNDS', {})),
            stubs_used=getattr(mod, 'STUBS', []),
            realised_vars=getattr(mod, 'REALISED', []),
            outside_claim=getattr(mod, 'OUTSIDE', []),
            twins_ok='%d/%d' % (twins_ok, twins_total),
            stub_validation=[dict(name=v['name'], ok=v.get('ok'), n=v.get('n', 1), detail=str(v.get('detail', ''))[:300]) for v in val],
            per_obligation={n: dict(status=s.get('status'), wall_s=s.get('wall_s'),
                                    paths=s.get('stats', {}).get('paths_finished'),
                                    z3=s.get('stats', {}).get('z3_checks')) for n, s in ob_status.items()},
            known_findings=[dict(signature=s, what=k.get('what')) for s, k, _ in knowns],
            spurious_under_abstraction=[dict(obligation=n, witness=str(w)[:300]) for n, w, _ in spurious],
            harness_errors=harness_errors,
            engine='CrossHair 0.0.110 + z3 %s (per-path SMT), real code imported from /repo' % _z3v(),
        ),
        assumptions=getattr(mod, 'ASSUMPTIONS', []),
        wall_s=round(time.time() - t_start, 2),
        violations=len(violations),
    )
    os.makedirs(os.path.join(ROOT, 'evidence'), exist_ok=True)
    with open(os.path.join(ROOT, 'evidence', prop + '.json'), 'w') as f:
        json.dump(ev, f, indent=1, default=str)

    for n, s in sorted(ob_status.items()):
        print('  %-40s %-14s %6.1fs paths=%s z3=%s' % (n, s.get('status'), s.get('wall_s') or 0,
                                                     s.get('stats', {}).get('paths_finished'), s.get('stats', {}).get('z3_checks')))
    print('%s tier=%s obligations=%d discharged=%d inconclusive=%d twins=%d/%d wall=%.0fs'
          % (prop, tier, n_ob, discharged, len(inconclusive), twins_ok, twins_total, time.time() - t_start))
    for sig, k, path in knowns:
        print('KNOWN-FINDING: property=%s %s' % (prop, k.get('what', sig)))
    for n, w, d in spurious:
        print('INCONCLUSIVE (spurious under abstraction): %s %r' % (n, w))
    for sig, path, detail in violations:
        print('  violation: %s :: %s' % (sig, str(detail)[:400]))
        print('VIOLATION property=%s replay=%s' % (prop, path))
    if violations:
        return 1
    if harness_errors:
        for e in harness_errors:
            print('HARNESS-ERROR: ' + e, file=sys.stderr)
        return 3
    return 0


def _z3v():
    try:
        import z3
        return z3.get_version_string()
    except Exception:
        return '?'


if __name__ == '__main__':
    try:
        rc = main()
    except Exception:
        import traceback
        traceback.print_exc()
        print('HARNESS-ERROR: runner crashed', file=sys.stderr)
        rc = 3
    sys.exit(rc)
