"""python -m vf.direct_driver harness.Cxx func -> JSON dict (engine B obligations)."""
import importlib
import json
import sys
import warnings

warnings.simplefilter('ignore')
mod = importlib.import_module(sys.argv[1])
res = getattr(mod, sys.argv[2])()
print(json.dumps(res, default=str))
