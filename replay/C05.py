"""C05: concrete replay of the array-mode comparison."""


def replay(cex):
    if cex.get('func') != 'concrete':
        return None
    import harness.C05 as H
    res = H.validate_array_mode(0)
    bad = res.get('violation')
    return dict(reproduced=bool(bad), signature='array_mode', detail=res['detail'])
