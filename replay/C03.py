"""C03: API-level replay - two spellings of one molecule through the real library."""


def replay(cex):
    if cex.get('func') != 'concrete':
        return None
    import warnings
    warnings.simplefilter('ignore')
    import pgradd.ThermoChem  # noqa: F401
    from pgradd.GroupAdd.Library import GroupLibrary
    w = cex['witness'][-1]
    lib = GroupLibrary.Load('BensonGA')
    if 'form' in w:
        from vf.molforms import descriptors_of
        ref = descriptors_of(lib, w['a'], 'smiles')[0]
        got = descriptors_of(lib, w['a'], w['form'], 2)
        return dict(reproduced=any(g != ref for g in got), signature='descr:form',
                    detail='%s as %s -> %r ; SMILES -> %r' % (w['a'], w['form'], got, ref))
    a, b = dict(lib.GetDescriptors(w['a'])), dict(lib.GetDescriptors(w['b']))
    return dict(reproduced=a != b, signature='descr:spelling', detail='%s -> %r ; %s -> %r' % (w['a'], a, w['b'], b))
