"""C03: API-level replay - two spellings of one molecule through the real library."""


def replay(cex):
    if cex.get('func') != 'concrete':
        return None
    import warnings
    warnings.simplefilter('ignore')
    import pgradd.ThermoChem  # noqa: F401
    from pgradd.GroupAdd.Library import GroupLibrary
    w = cex['witness'][-1]
    lib = GroupLibrary.Load('BensonGA')
    a, b = dict(lib.GetDescriptors(w['a'])), dict(lib.GetDescriptors(w['b']))
    return dict(reproduced=a != b, signature='descr:spelling', detail='%s -> %r ; %s -> %r' % (w['a'], a, w['b'], b))
