"""Replays for C10 obligations that are not CrossHair harnesses (engine B and the definition table)."""


def replay(cex):
    import harness.C10 as H
    import pgradd.Units.db as DB
    from pgradd.Error import UnitsParseError
    ob = cex['obligation']
    if ob == 'lookup':
        name = cex['witness'][-1]['name']
        exp = H.expected_reading(name)
        try:
            got = DB.units_db.lookup(name)
            real = 'value'
        except UnitsParseError:
            got, real = None, 'UnitsParseError'
        except Exception as e:
            got, real = None, type(e).__name__
        if exp is None:
            ok = real == 'UnitsParseError'
            want = 'UnitsParseError'
        else:
            val, exps = H.SI[exp[1]]
            want = (H.SI_PREFIX[exp[0]] if exp[0] else 1.0) * val
            ok = real == 'value' and abs(got.value - want) <= 1e-6 * abs(want) and \
                [float(x) for x in got.units.exps] == [float(e) for e in exps]
        return dict(reproduced=not ok, signature='lookup:%s:%s' % (real, 'da-prefix' if name.startswith('da') else 'other'),
                    detail='lookup(%r): real=%s %r, expected %r' % (name, real, getattr(got, 'value', None), want))
    if ob.startswith('builtin unit/prefix definitions'):
        res = H.validate('quick', 0)[0]
        bad = res.get('violation')
        names = sorted(b.split(',')[0].strip("('") for b in bad[1]['bad']) if bad else []
        return dict(reproduced=bool(bad), signature='definitions:' + ','.join(names), detail=res['detail'])
    return None
