"""C16: concrete replay of the textual rule on ethane."""


def replay(cex):
    if cex.get('func') != 'concrete':
        return None
    import harness.C16 as H
    res = H.validate('quick', 0)[0]
    bad = res.get('violation')
    return dict(reproduced=bool(bad), signature=(bad[1].split(':')[0] if bad else 'rule_readable'), detail=res['detail'])
