"""C20: concrete replay of the real numpy standard-error path."""


def replay(cex):
    if cex.get('func') != 'concrete':
        return None
    import harness.C20 as H
    res = H.validate('quick', 0)[0]
    bad = res.get('violation')
    return dict(reproduced=bool(bad) or not res['ok'], signature='quadform:' + (bad[1] if bad else 'wrong value'),
                detail=res['detail'])
