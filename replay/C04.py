"""C04: API-level replay - 'A.B' through the real library."""


def replay(cex):
    if cex.get('func') != 'concrete':
        return None
    import warnings
    warnings.simplefilter('ignore')
    import pgradd.ThermoChem  # noqa: F401
    from pgradd.GroupAdd.Library import GroupLibrary
    w = cex['witness'][-1]
    lib = GroupLibrary.Load(w.get('lib', 'BensonGA'))
    da, db = dict(lib.GetDescriptors(w['a'])), dict(lib.GetDescriptors(w['b']))
    want = dict(da)
    for k, v in db.items():
        want[k] = want.get(k, 0) + v
    got = dict(lib.GetDescriptors(w['a'] + '.' + w['b']))
    return dict(reproduced=got != want, signature='mixture:api', detail='%r vs %r' % (got, want))
