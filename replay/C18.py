"""C18: concrete replay of the end-to-end round trips."""


def replay(cex):
    if cex.get('func') not in ('concrete', 'concrete-shipped'):
        return None
    import harness.C18 as H
    if cex.get('func') == 'concrete-shipped':
        res = H.shipped_roundtrip()
        bad = res.get('violation')
        return dict(reproduced=bool(bad), signature='roundtrip:shipped', detail=res['detail'])
    res = H.validate('quick', 0)[0]
    bad = res.get('violation')
    return dict(reproduced=bool(bad), signature='roundtrip:concrete', detail=res['detail'])
