"""C18: concrete replay of the end-to-end round trips."""


def replay(cex):
    if cex.get('func') != 'concrete':
        return None
    import harness.C18 as H
    res = H.validate('quick', 0)[0]
    bad = res.get('violation')
    return dict(reproduced=bool(bad), signature='roundtrip:concrete', detail=res['detail'])
