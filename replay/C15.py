"""C15: API-level replay with the real library and RDKit."""


def replay(cex):
    if cex.get('func') != 'concrete':
        return None
    import harness.C15 as H
    res = H.validate('quick', 0)[0]
    bad = res.get('violation')
    return dict(reproduced=bool(bad), signature='history:estimate-after-decomposing-another-molecule', detail=res['detail'])
