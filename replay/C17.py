"""C17: API-level replay of the ethane network through the real GenerateRxnNet with real RDKit."""


def replay(cex):
    if cex.get('func') != 'concrete':
        return None
    from rdkit import Chem
    import pgradd.RDkitWrapper.GenRxnNet as RG
    out = RG.GenerateRxnNet('CC', ['[C:1][H:2]>>[C:1].[H:2]', '[C:1][C:2]>>[C:1].[C:2]'])
    can = [Chem.MolToSmiles(m) for m in out]
    dup = sorted(set(c for c in can if can.count(c) > 1))
    return dict(reproduced=bool(dup), signature='closure:a species is listed twice',
                detail='ethane + C-H/C-C scission: %d species, duplicates %r' % (len(can), dup))
