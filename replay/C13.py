"""C13: concrete replay of the duplicate-spelling file check."""


def replay(cex):
    if cex.get('func') != 'concrete':
        return None
    import harness.C13 as H
    res = H.validate('quick', 0)[-1]
    bad = res.get('violation')
    return dict(reproduced=bool(bad), signature='loader:duplicate spelling accepted', detail=res['detail'])
