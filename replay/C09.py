"""C09 replays that are not harness re-executions: a concrete text through the real public Read."""
import signal


class _T(Exception):
    pass


def _alarm(*a):
    raise _T()


def read_outcome(text, limit=5):
    from pgradd.RINGParser.Reader import Read
    from pgradd.Error import RINGError
    signal.signal(signal.SIGALRM, _alarm)
    signal.alarm(limit)
    try:
        Read(text)
        return 'query'
    except _T:
        return 'hang'
    except RINGError as e:
        return 'ring-error:' + type(e).__name__
    except NotImplementedError:
        return 'not-implemented'
    except Exception as e:
        return 'escapes:' + type(e).__name__
    finally:
        signal.alarm(0)


def replay(cex):
    if cex.get('func') == 'concrete':
        text = cex['witness'][-1]['text']
        out = read_outcome(text)
        return dict(reproduced=out in ('hang',) or out.startswith('escapes:'),
                    signature='L1:hang' if out == 'hang' else 'L2:' + out, detail='Read(%r) -> %s' % (text, out))
    return None
