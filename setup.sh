#!/bin/bash
# Builds /verif/.venv: an overlay on /venv (repo deps: rdkit, numpy, scipy, pmutt, yaml)
# plus crosshair-tool and z3-solver from the offline wheelhouse. Idempotent.
set -e
cd "$(dirname "$0")"
V=/verif/.venv
if [ -x "$V/bin/crosshair" ] && "$V/bin/python" -c "import crosshair, z3, rdkit, pgradd" 2>/dev/null; then
  exit 0
fi
rm -rf "$V"
/venv/bin/python -m venv "$V"
SP=$("$V/bin/python" -c "import site; print(site.getsitepackages()[0])")
printf '/venv/lib/python3.12/site-packages\n/repo\n' > "$SP/verif_overlay.pth"
PIP_NO_INDEX=1 "$V/bin/pip" install -q --no-index --find-links /opt/veriftools/wheels crosshair-tool z3-solver >/dev/null
"$V/bin/python" -c "import crosshair, z3, rdkit, pgradd; print('setup ok', z3.get_version_string())"
