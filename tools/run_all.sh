#!/bin/bash
# tools/run_all.sh [quick|thorough] [ids...]: runs the registered checks one after another, prints a summary table
cd "$(dirname "$0")/.."
tier=${1:-quick}; shift
ids=${@:-C01 C02 C03 C04 C05 C06 C07 C08 C09 C10 C11 C12 C13 C15 C16 C17 C18 C19 C20}
mkdir -p /tmp/verif_runall
for id in $ids; do
  t0=$(date +%s)
  ./check $id --tier $tier > /tmp/verif_runall/$id.$tier.log 2>&1
  rc=$?
  echo "$id rc=$rc $(( $(date +%s) - t0 ))s $(grep "^$id tier=" /tmp/verif_runall/$id.$tier.log)"
done
