#!/usr/bin/env python3
"""Regenerates MANIFEST.json from the table below (kept in one place so it stays valid)."""
import json
import os

ROOT = os.path.dirname(os.path.dirname(os.path.abspath(__file__)))

A = 'symbolic execution of the real Python (CrossHair 0.0.110) with z3 deciding every path; '
CLAIMED = {
    'C01': dict(
        text='z3 shows on every path of the real Estimate/ThermochemGroupAdditive code that each property is the '
             'count-weighted sum (or the incomplete-data error), and that missing descriptors are named exactly, for all '
             'real-valued counts/contributions within the size bound; for each of the nine shipped libraries the whole '
             'count vector over every group with data is symbolic at concrete temperatures; two estimates in sequence from one '
             'library object must each use their own counts. Bounded (<= 4 synthetic descriptors), not a proof.',
        note='float := real; shipped constituents evaluated concretely outside the tracer (concrete T); non-empty range '
             'intersection assumed',
        technique=A + 'symbolic real counts and values', ref='DESIGN.md 4/C01'),
    'C05': dict(
        text='For tables of 1..4 points with all values symbolic reals (any supply order, any placement of T_ref and T), '
             'z3 decides the enthalpy/entropy integral identities against an independently written antiderivative, Cp '
             'reproduction, reference values, G = H - S and order independence on every path of the real constructors '
             'and getters; placement obligations (concrete 2-4 point tables) and shipped groups (their real FITPACK spline '
             'as an exact piecewise polynomial) keep T_ref/T symbolic; in the thorough tier the largest integrals are split over the '
             'position of T and T_ref relative to the table span. Bounded model checking.',
        note='float := real; FITPACK/QUADPACK/np.log behind PolySpline/QuadStub/uninterpreted LN (validated concretely); '
             'obligations that exhaust their budget are reported inconclusive',
        technique=A + 'nonlinear real arithmetic, uninterpreted LN with ratio axioms', ref='DESIGN.md 4/C05'),
    'C06': dict(
        text='For every value of the symbolic reals (range bounds, reference temperature, table points in any supply '
             'order, evaluation temperature, counts) within the size bound, z3 shows on every path of the real '
             'check_range/getters/constructors that a value is returned iff T is inside the valid range, the estimate '
             'range is the intersection, and out-of-range table/T_ref are rejected; check_range is also decided for arrays of symbolic temperatures. Bounded model '
             'checking of the real code; not a proof (tables <= 4 points, estimates <= 3 constituents).',
        note='float modelled as real; FITPACK/QUADPACK/np.log behind PolySpline/QuadStub/uninterpreted LN (validated '
             'concretely each run); scalar T only',
        technique=A + 'reals for all numeric inputs', ref='DESIGN.md 4/C06'),
    'C07': dict(
        text='For every key of the installed gas-constant table, z3 shows for all real T and non-dimensional values that '
             'H, S, Cp, G are the stated products; the elemental-entropy clause is decided for all molecules of <= 4 '
             'atoms over six elements with symbolic hydrogen count, through the non-dimensional and the dimensional getters of '
             'the estimate class. Bounded.',
        note='float := real; fake Chem (AddHs/GetAtoms/GetAtomicNum) validated against RDKit',
        technique=A + 'symbolic reals; unit table enumerated as configuration', ref='DESIGN.md 4/C07'),
    'C09': dict(
        text='The real parser and readers are executed on text with a symbolic hole (every Unicode string of <= k '
             'characters at a cut point of 12 seed texts, and whole texts of <= 3-4 characters); z3 decides every path: '
             'the outcome is a query, a RING error with an in-text position, or NotImplementedError; never a hang (fuel), '
             'never another exception, never partial consumption. Bounded (one hole, k <= 3).',
        note='HoleStr symbolic buffer stands in for str (validated against str each run); RDKit behind fakes honouring its '
             'error contract; every counterexample replayed through the real Read with real RDKit under a time limit',
        technique=A + 'symbolic characters over all of Unicode in a fixed-length buffer', ref='DESIGN.md 4/C09'),
    'C10': dict(
        text='UnitsDB.lookup is translated from its AST to z3 string constraints and decided for every string of length '
             '<= 16; the expression parser/evaluator is executed on every token sequence up to length 3-4 with symbolic '
             'real numerals against an independent evaluator; conversions are decided for symbolic magnitudes; sequences of lookups '
             'through the process-global table must not influence each other. The unit table itself is compared concretely with '
             'an independent SI table. Bounded.',
        note='regex tokeniser bypassed (validated); float := real; definition table is configuration, checked by comparison',
        technique='AST->z3 (sequence theory) for lookup; ' + A + 'symbolic magnitudes', ref='DESIGN.md 4/C10',
        engine='crosshair-z3'),
    'C11': dict(
        text='For every ordered pair of 15 dimensions (and plain numbers) and 27 operator forms, z3 decides for all real '
             'magnitudes that compatible operands behave as numbers and incompatible ones raise / compare unequal, with '
             'exact dimension exponents of products, quotients and powers. Exhaustive over the finite dimension table, '
             'universal over magnitudes.',
        note='float := real; scalar quantities only; debug print/str of quantities stubbed',
        technique=A + 'symbolic real magnitudes, dimension table enumerated by the solver', ref='DESIGN.md 4/C11'),
    'C17': dict(
        text='The real work-list loop of GenerateRxnNet runs over abstract species with a symbolic successor relation '
             '(<= 4 species, <= 2 rules, <= 2 products per application), symbolic valence flags, and species of 1-2 atoms '
             'with a symbolic proper-substructure relation between them; z3-driven exploration '
             'of every relation shows the result is the duplicate-free closure and that generation terminates (fuel). '
             'Bounded exhaustive.',
        note='RDKit replaced by fakes (identity = mutual substructure test, validated on real molecules); the real '
             'function is also replayed on ethane with real RDKit',
        technique=A + 'symbolic successor relation (solver-enumerated)', ref='DESIGN.md 4/C17'),
    'C02': dict(
        text='The real GetDescriptors/_AssignCenterPattern/_AssignGroup/_AssignDescriptor/_aromatization_Benson run on fake '
             'molecules whose adjacency, per-(pattern, atom) match flags, matched index tuples, ring elements and bond types are '
             'chosen by the solver; every reachable configuration within the bound is explored and compared with an '
             'independently written decomposition (one centre per atom else PatternMatchError, groups from neighbours, distinct '
             'atom sets, linear remaps, Benson ring rule). Bounded exhaustive over the Python layer; RDKit embedding assumed.',
        note='RDKit behind fakes/FakeMatcher; with all inputs realised the scheme code runs outside the tracer (real CPython '
             'set order); API-level witnesses replayed with real RDKit',
        technique=A + 'solver-enumerated discrete configurations', ref='DESIGN.md 4/C02'),
    'C03': dict(
        text='Renumbering-equivariance of the same Python layer: for every molecule/match configuration in the bound and every '
             'renumbering and match order, the descriptors (or the failure) are unchanged; correction-descriptor counts are '
             'invariant under index shifts (real set iteration order). What RDKit does between the string and the graph is '
             'assumed; random SMILES spellings and molecule-object inputs (implicit / all / one explicit hydrogen, asked twice) are '
             'replayed concretely.',
        note='same fakes as C02', technique=A + 'solver-enumerated configurations and permutations', ref='DESIGN.md 4/C03'),
    'C04': dict(
        text='Additivity of the Python layer under a local matcher: for all component configurations in the bound, descriptors '
             'of the disjoint union equal the sum (also when a correction descriptor carries a group\'s name), the pair fails iff a '
             'component fails, and the Benson ring pretreatment of two disconnected rings equals that of each ring alone.',
        note='locality of RDKit matching assumed; shipped schemes checked at run time to use no molecule-level prefix',
        technique=A + 'solver-enumerated configurations', ref='DESIGN.md 4/C04'),
    'C08': dict(
        text='Each pure-Python constraint evaluator is executed on fake atoms/bonds with symbolic attributes (unbounded '
             'symbolic integers for radical counts, charges and the comparison number) and compared with its denotation; the '
             'filter pipeline of GetQueryMatches is explored over symbolic constraint outcomes; every constraint form is read '
             'from text by the real reader and its constraint objects evaluated symbolically; whitespace and label-name holes '
             'go through the real parser. Bounded; RDKit embedding search assumed.',
        note='RDKit fakes validated against real atoms/bonds/ring info; whitespace free between tokens only',
        technique=A + 'symbolic integers/booleans, symbolic characters for layout', ref='DESIGN.md 4/C08'),
    'C12': dict(
        text='The real loaders (qty_loader, ObjectLoader, yaml_construct) run on the tree of one group entry with symbolic real '
             'values in three presentations (default-unit block, explicit quantities, non-dimensional): z3 shows each yields '
             'the same plain-number correlation, zero included, and that a unit-less dimensional value is rejected.',
        note='tree as libyaml would produce it; units parser itself is C10; float := real',
        technique=A + 'symbolic real values through the real unit algebra', ref='DESIGN.md 4/C12'),
    'C13': dict(
        text='One inductive update step from two arbitrary valid correlation states (symbolic optional H/S incl. zero, Cp '
             'points, ranges, overwrite): z3 shows conflict detection, field-wise union, no change on rejection, no change of '
             'the source, idempotence and symmetry; library-level Update likewise. Histories follow by induction.',
        note='float := real; FITPACK behind Newton interpolation; duplicate spellings in a file replayed concretely',
        technique=A + 'inductive step over symbolic states', ref='DESIGN.md 4/C13'),
    'C15': dict(
        text='Every history of <= 4-6 operations (decompose, estimate+evaluate, merge, construct scheme) on real Library/Scheme/'
             'estimator objects over stubbed chemistry, followed by probes (estimate from the first and from a repeated '
             'decomposition, new decomposition, library contents, default scheme) whose expected values are computed analytically.',
        note='chemistry stubbed; API-level replay with BensonGA and real RDKit', technique=A + 'symbolic operation histories '
             '(bounded model checking)', ref='DESIGN.md 4/C15'),
    'C16': dict(
        text='Rule texts with every sequence of <= 2-3 edits are read by the real Read and accepted iff the independently computed '
             'per-atom electron balance is zero; each transformation class is executed on a fake RWMol with symbolic integers '
             'and a symbolic injective index mapping and must change exactly the declared field; RunReactants yields one '
             'product set per match from a fresh copy.',
        note='RDKit fakes for the edit layer; GetMolFrags/sanitisation outside; the C-H scission rule replayed on ethane',
        technique=A + 'symbolic index mapping and integers', ref='DESIGN.md 4/C16'),
    'C18': dict(
        text='The real yaml_format output (numbers as placeholder tokens) is parsed by the real libyaml and rebuilt by the real '
             'loaders: z3 shows the reloaded correlation equals the original for all real values (zero, negative, missing '
             'parts) and 15 unit choices. The six-significant-digit clause is not decided symbolically; concrete round trips '
             'with real rendering run in validation.',
        note='decimal rendering assumed the identity on reals (TextTokens)', technique=A + 'symbolic reals behind text '
             'placeholders', ref='DESIGN.md 4/C18'),
    'C19': dict(
        text='Solver-enumerated exhaustive exploration of multiplicity vectors, supply orders and run-length spellings over a '
             'concrete alphabet from the shipped library: equality/hash/lookup iff same centre and multiset, canonical-name '
             'round trip, string interchangeability, malformed counts rejected.',
        note='names concrete (character-level universality out of reach); the weakest fit of the technique among the claims',
        technique=A + 'solver-enumerated small integers', ref='DESIGN.md 4/C19'),
    'C20': dict(
        text='z3 shows that the radicand handed to sqrt equals RMSE^2 * x.M.x for symbolic real counts and RMSE (concrete '
             'and symbolic 3x3 M, and counts from a grid incl. fractional values; for the three shipped uncertainty libraries the WHOLE count vector over the basis, 66-75 reals at once), '
             'that scaling multiplies it by c^2, that mapping order and the order of two libraries are irrelevant and that an '
             'out-of-basis descriptor raises. Bounded in the synthetic part; the shipped part is universal over the count vector.',
        note='numpy behind a list-based array shim; sqrt uninterpreted; the real numpy path is replayed concretely',
        technique=A + 'polynomial identities over the reals', ref='DESIGN.md 4/C20'),
}

NOT_APPLICABLE = {
    'C14': 'quantifies over nine concrete shipped data directories x three file-system locations; behaviour is libyaml + '
           'RDKit + file lookup on fixed artefacts: no symbolic input domain, deciding it is concrete enumeration, which '
           'this technique family excludes',
}

PENDING = 'check not built yet in this session; will be claimed when its harness lands'


def main():
    props = [json.loads(l)['id'] for l in open(os.path.join(ROOT, 'properties.jsonl'))]
    checks = []
    for pid in props:
        if pid not in CLAIMED:
            continue
        c = CLAIMED[pid]
        checks.append(dict(
            property_id=pid,
            quick_cmd='./check %s --tier quick' % pid,
            thorough_cmd='./check %s --tier thorough' % pid,
            evidence_file='evidence/%s.json' % pid,
            replay_cmd_template='./check %s --replay {path}' % pid,
            engine=c.get('engine', 'crosshair-z3'),
            level_claimed=dict(category='model_checking', text=c['text'], design_ref=c['ref']),
            level_note=c['note'],
            technique=c['technique'],
        ))
    na = []
    for pid in props:
        if pid in CLAIMED:
            continue
        na.append(dict(property_id=pid, reason=NOT_APPLICABLE.get(pid, PENDING)))
    man = dict(
        version=1,
        setup_cmd='./setup.sh',
        hooks=dict(guard='PGRADD_VERIF', enable='no source hooks: all instrumentation is monkeypatching inside the '
                   'harness process (PGRADD_VERIF=1 is exported by the runner but nothing in /repo reads it)',
                   baseline_off_cmd='cd /repo && /venv/bin/python -m pytest -ra -q -p no:cacheprovider --timeout=900',
                   source_commits=[], add_only=True),
        engines=[
            dict(name='crosshair-z3', path='vf/runner.py', serves_properties=[p for p in props if p in CLAIMED],
                 kind_free_text='CrossHair 0.0.110 symbolic execution of the real Python functions imported from /repo, '
                                'z3 5.1 deciding each path; reals plugin; one process per obligation plus a vacuity twin; '
                                'counterexamples replayed on the unstubbed code'),
            dict(name='py2smt', path='vf/py2smt.py', serves_properties=[p for p in props if p in CLAIMED and CLAIMED[p].get('engine') == 'py2smt'],
                 kind_free_text='AST->z3 translation (strings) of small lookup kernels, regenerated from source each run'),
        ],
        checks=checks,
        not_applicable=na,
        notes='Exit 0 held/known findings only; 1 new reproduced violation (VIOLATION line); 3 harness error. '
              'Inconclusive obligations (solver budget) are reported in evidence (discharged < obligations) and never as success.',
    )
    with open(os.path.join(ROOT, 'MANIFEST.json'), 'w') as f:
        json.dump(man, f, indent=1)
    print('MANIFEST.json: %d checks, %d not claimed' % (len(checks), len(na)))


if __name__ == '__main__':
    main()
