#!/usr/bin/env python3
"""Regenerates MANIFEST.json from the table below (kept in one place so it stays valid)."""
import json
import os

ROOT = os.path.dirname(os.path.dirname(os.path.abspath(__file__)))

CLAIMED = {
    'C06': dict(
        text='For every value of the symbolic reals (range bounds, reference temperature, table points in any supply '
             'order, evaluation temperature, counts) within the size bound, z3 shows on every path of the real '
             'check_range/getters/constructors that a value is returned iff T is inside the valid range, the estimate '
             'range is the intersection, and out-of-range table/T_ref are rejected. Bounded model checking of the real '
             'code; not a proof (tables <= 4 points, estimates <= 3 constituents).',
        note='float modelled as real; FITPACK/QUADPACK/np.log behind PolySpline/QuadStub/uninterpreted LN (validated '
             'concretely each run); scalar T only',
        technique='symbolic execution of the real Python (CrossHair) with z3 deciding every path; reals for all numeric inputs',
        ref='DESIGN.md 4/C06'),
}

NOT_APPLICABLE = {
    'C14': 'quantifies over nine concrete shipped data directories x three file-system locations; behaviour is libyaml + '
           'RDKit + file lookup on fixed artefacts: no symbolic input domain, deciding it is concrete enumeration, which '
           'this technique family excludes',
}

PENDING = 'check not built yet in this session; will be claimed when its harness lands'


def main():
    props = [json.loads(l)['id'] for l in open(os.path.join(ROOT, 'properties.jsonl'))]
    checks = []
    for pid in props:
        if pid not in CLAIMED:
            continue
        c = CLAIMED[pid]
        checks.append(dict(
            property_id=pid,
            quick_cmd='./check %s --tier quick' % pid,
            thorough_cmd='./check %s --tier thorough' % pid,
            evidence_file='evidence/%s.json' % pid,
            replay_cmd_template='./check %s --replay {path}' % pid,
            engine=c.get('engine', 'crosshair-z3'),
            level_claimed=dict(category='model_checking', text=c['text'], design_ref=c['ref']),
            level_note=c['note'],
            technique=c['technique'],
        ))
    na = []
    for pid in props:
        if pid in CLAIMED:
            continue
        na.append(dict(property_id=pid, reason=NOT_APPLICABLE.get(pid, PENDING)))
    man = dict(
        version=1,
        setup_cmd='./setup.sh',
        hooks=dict(guard='PGRADD_VERIF', enable='no source hooks: all instrumentation is monkeypatching inside the '
                   'harness process (PGRADD_VERIF=1 is exported by the runner but nothing in /repo reads it)',
                   baseline_off_cmd='cd /repo && /venv/bin/python -m pytest -ra -q -p no:cacheprovider --timeout=900',
                   source_commits=[], add_only=True),
        engines=[
            dict(name='crosshair-z3', path='vf/runner.py', serves_properties=[p for p in props if p in CLAIMED],
                 kind_free_text='CrossHair 0.0.110 symbolic execution of the real Python functions imported from /repo, '
                                'z3 5.1 deciding each path; reals plugin; one process per obligation plus a vacuity twin; '
                                'counterexamples replayed on the unstubbed code'),
            dict(name='py2smt', path='vf/py2smt.py', serves_properties=[p for p in props if p in CLAIMED and CLAIMED[p].get('engine') == 'py2smt'],
                 kind_free_text='AST->z3 translation (strings) of small lookup kernels, regenerated from source each run'),
        ],
        checks=checks,
        not_applicable=na,
        notes='Exit 0 held/known findings only; 1 new reproduced violation (VIOLATION line); 3 harness error. '
              'Inconclusive obligations (solver budget) are reported in evidence (discharged < obligations) and never as success.',
    )
    with open(os.path.join(ROOT, 'MANIFEST.json'), 'w') as f:
        json.dump(man, f, indent=1)
    print('MANIFEST.json: %d checks, %d not claimed' % (len(checks), len(na)))


if __name__ == '__main__':
    main()
