#!/bin/bash
# tools/try_seed.sh [--copy] <seeded/dir> [tier] [extra check args]
# default: git -C /repo apply patch.diff; run the check of the property it breaks (and the demo); git -C /repo checkout -- .
# --copy : leave /repo alone (e.g. while long runs are using it): the patch is applied to a scratch copy under /tmp and the
#          check runs against that copy (VERIF_REPO); the copy is removed afterwards.
set -u
cd "$(dirname "$0")/.."
mode=inplace
if [ "$1" = "--copy" ]; then mode=copy; shift; fi
d=$1; tier=${2:-quick}; shift; shift || true
prop=$(python3 -c "import json,sys; print(json.load(open('$d/meta.json'))['property'])")
if [ $mode = inplace ]; then
  if ! git -C /repo diff --quiet; then echo "/repo has uncommitted changes; refusing" >&2; exit 2; fi
  git -C /repo apply "$PWD/$d/patch.diff" || { echo "patch does not apply" >&2; exit 2; }
  trap 'git -C /repo checkout -- . ' EXIT
  R=/repo
else
  R=$(mktemp -d /tmp/seedrepo_XXXXXX)
  rsync -a --exclude .git /repo/ $R/
  (cd $R && patch -s -p1 < "$OLDPWD/$d/patch.diff") || { echo "patch does not apply" >&2; rm -rf $R; exit 2; }
  trap 'rm -rf $R' EXIT
  export VERIF_REPO=$R
fi
echo "== tests with the change:"; (cd $R && PYTHONPATH=$R /venv/bin/python -m pytest -q -p no:cacheprovider 2>&1 | tail -1)
if [ -f "$d/demo.py" ]; then echo "== demo with the change:"; (cd $R && PYTHONPATH=$R timeout 300 /venv/bin/python "$OLDPWD/$d/demo.py" 2>&1 | tail -2); fi
echo "== ./check $prop --tier $tier $* (tree under check: $R)"
./check $prop --tier $tier "$@" 2>&1 | grep -v "confirmed  " | tail -8
echo "exit=${PIPESTATUS[0]}"
