#!/bin/bash
# tools/try_seed.sh <seeded/dir> [tier] [extra check args]: apply its patch.diff to /repo, run the check of the property
# it breaks (and the demo), then undo the patch.  Never leaves /repo modified.
set -u
cd "$(dirname "$0")/.."
d=$1; tier=${2:-quick}; shift; shift || true
prop=$(python3 -c "import json,sys; print(json.load(open('$d/meta.json'))['property'])")
if ! git -C /repo diff --quiet; then echo "/repo has uncommitted changes; refusing" >&2; exit 2; fi
git -C /repo apply "$PWD/$d/patch.diff" || { echo "patch does not apply" >&2; exit 2; }
trap 'git -C /repo checkout -- . ' EXIT
echo "== tests with the change:"; (cd /repo && /venv/bin/python -m pytest -q -p no:cacheprovider 2>&1 | tail -1)
if [ -f "$d/demo.py" ]; then echo "== demo with the change:"; (cd /repo && PYTHONPATH=/repo timeout 300 /venv/bin/python "$OLDPWD/$d/demo.py" 2>&1 | tail -2); fi
echo "== ./check $prop --tier $tier $*"
./check $prop --tier $tier "$@" 2>&1 | grep -v "confirmed  " | tail -8
echo "exit=${PIPESTATUS[0]}"
